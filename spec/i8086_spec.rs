// i8086_spec.rs -- reference semantics used as the oracle in every contract.
//
// Written from the Intel "8086 Family User's Manual" instruction descriptions
// and from the property statements in /verif/properties.jsonl, NOT from the
// emulator's code.  Plain Rust, no dependencies: the same file is compiled
// (a) into the Kani copy of the crate under cfg(kani) and used inside
// ensures-clauses / harness assertions, (b) into the native replay tool, so a
// counterexample is judged by the very oracle that produced it.
//
// Flags the manual leaves "undefined" are never compared; the mask tables at
// the bottom say which bits are compared for which instruction.
#![allow(dead_code)]

pub const CF: u16 = 1 << 0;
pub const PF: u16 = 1 << 2;
pub const AF: u16 = 1 << 4;
pub const ZF: u16 = 1 << 6;
pub const SF: u16 = 1 << 7;
pub const TF: u16 = 1 << 8;
pub const IF: u16 = 1 << 9;
pub const DF: u16 = 1 << 10;
pub const OF: u16 = 1 << 11;
pub const STATUS6: u16 = CF | PF | AF | ZF | SF | OF;
pub const MB: usize = 1 << 20;

#[inline]
pub fn parity_even(b: u8) -> bool {
    // PF is set when the low byte of the result has an even number of 1 bits.
    let mut n = 0u8;
    let mut i = 0;
    while i < 8 {
        n += (b >> i) & 1;
        i += 1;
    }
    n % 2 == 0
}

#[inline]
fn szp8(r: u8) -> u16 {
    (if r == 0 { ZF } else { 0 }) | (if r & 0x80 != 0 { SF } else { 0 }) | (if parity_even(r) { PF } else { 0 })
}
#[inline]
fn szp16(r: u16) -> u16 {
    (if r == 0 { ZF } else { 0 })
        | (if r & 0x8000 != 0 { SF } else { 0 })
        | (if parity_even(r as u8) { PF } else { 0 })
}

/// Replace the bits selected by `mask` in `old` by those of `new`.
#[inline]
pub fn merge(old: u16, new: u16, mask: u16) -> u16 {
    (old & !mask) | (new & mask)
}

// ---------------------------------------------------------------- ALU ------

#[derive(Clone, Copy, PartialEq, Eq, Debug)]
pub enum Alu {
    Add,
    Adc,
    Sub,
    Sbb,
    Cmp,
}

/// 8-bit ADD/ADC/SUB/SBB/CMP: (arithmetic result, the six status flags).
/// CMP's arithmetic result is the one SUB would produce (it is not written).
pub fn alu8(op: Alu, a: u8, b: u8, cf_in: bool) -> (u8, u16) {
    let c: i32 = match op {
        Alu::Adc | Alu::Sbb => cf_in as i32,
        _ => 0,
    };
    let (ua, ub) = (a as i32, b as i32);
    let (sa, sb) = (a as i8 as i32, b as i8 as i32);
    let (wide, signed, nib) = match op {
        Alu::Add | Alu::Adc => (ua + ub + c, sa + sb + c, (ua & 0xF) + (ub & 0xF) + c),
        _ => (ua - ub - c, sa - sb - c, (ua & 0xF) - (ub & 0xF) - c),
    };
    let res = wide as u8;
    let mut f = szp8(res);
    if wide < 0 || wide > 0xFF {
        f |= CF;
    }
    if signed < -128 || signed > 127 {
        f |= OF;
    }
    if nib < 0 || nib > 0xF {
        f |= AF;
    }
    (res, f)
}

pub fn alu16(op: Alu, a: u16, b: u16, cf_in: bool) -> (u16, u16) {
    let c: i32 = match op {
        Alu::Adc | Alu::Sbb => cf_in as i32,
        _ => 0,
    };
    let (ua, ub) = (a as i32, b as i32);
    let (sa, sb) = (a as i16 as i32, b as i16 as i32);
    let (wide, signed, nib) = match op {
        Alu::Add | Alu::Adc => (ua + ub + c, sa + sb + c, (ua & 0xF) + (ub & 0xF) + c),
        _ => (ua - ub - c, sa - sb - c, (ua & 0xF) - (ub & 0xF) - c),
    };
    let res = wide as u16;
    let mut f = szp16(res);
    if wide < 0 || wide > 0xFFFF {
        f |= CF;
    }
    if signed < -32768 || signed > 32767 {
        f |= OF;
    }
    if nib < 0 || nib > 0xF {
        f |= AF;
    }
    (res, f)
}

#[derive(Clone, Copy, PartialEq, Eq, Debug)]
pub enum Una {
    Inc,
    Dec,
    Neg,
}

/// INC/DEC/NEG 8 bit: (result, new FLAGS word given the old one).
pub fn una8(op: Una, a: u8, flags: u16) -> (u8, u16) {
    match op {
        Una::Inc => {
            let (r, f) = alu8(Alu::Add, a, 1, false);
            (r, merge(flags, f, STATUS6 & !CF))
        }
        Una::Dec => {
            let (r, f) = alu8(Alu::Sub, a, 1, false);
            (r, merge(flags, f, STATUS6 & !CF))
        }
        Una::Neg => {
            let (r, f) = alu8(Alu::Sub, 0, a, false);
            (r, merge(flags, f, STATUS6))
        }
    }
}
pub fn una16(op: Una, a: u16, flags: u16) -> (u16, u16) {
    match op {
        Una::Inc => {
            let (r, f) = alu16(Alu::Add, a, 1, false);
            (r, merge(flags, f, STATUS6 & !CF))
        }
        Una::Dec => {
            let (r, f) = alu16(Alu::Sub, a, 1, false);
            (r, merge(flags, f, STATUS6 & !CF))
        }
        Una::Neg => {
            let (r, f) = alu16(Alu::Sub, 0, a, false);
            (r, merge(flags, f, STATUS6))
        }
    }
}

// -------------------------------------------------------------- logic ------

#[derive(Clone, Copy, PartialEq, Eq, Debug)]
pub enum Logic {
    And,
    Or,
    Xor,
    Test,
}
/// Bits compared after AND/OR/XOR/TEST (AF is undefined).
pub const LOGIC_MASK: u16 = CF | OF | SF | ZF | PF;

pub fn logic8(op: Logic, a: u8, b: u8) -> (u8, u16) {
    let r = match op {
        Logic::And | Logic::Test => a & b,
        Logic::Or => a | b,
        Logic::Xor => a ^ b,
    };
    (r, szp8(r)) // CF = OF = 0
}
pub fn logic16(op: Logic, a: u16, b: u16) -> (u16, u16) {
    let r = match op {
        Logic::And | Logic::Test => a & b,
        Logic::Or => a | b,
        Logic::Xor => a ^ b,
    };
    (r, szp16(r))
}

// ------------------------------------------------------ shifts/rotates -----

#[derive(Clone, Copy, PartialEq, Eq, Debug)]
pub enum Sh {
    Sal,
    Shr,
    Sar,
    Rol,
    Ror,
    Rcl,
    Rcr,
}

/// One single-bit 8086 step on a value of `w` bits (8 or 16): (value, CF).
#[inline]
pub fn sh_step(k: Sh, w: u32, v: u32, cf: bool) -> (u32, bool) {
    let top = 1u32 << (w - 1);
    let mask = if w == 8 { 0xFFu32 } else { 0xFFFFu32 };
    let msb = v & top != 0;
    let lsb = v & 1 != 0;
    match k {
        Sh::Sal => ((v << 1) & mask, msb),
        Sh::Shr => (v >> 1, lsb),
        Sh::Sar => ((v >> 1) | (v & top), lsb),
        Sh::Rol => (((v << 1) & mask) | msb as u32, msb),
        Sh::Ror => ((v >> 1) | if lsb { top } else { 0 }, lsb),
        Sh::Rcl => (((v << 1) & mask) | cf as u32, msb),
        Sh::Rcr => ((v >> 1) | if cf { top } else { 0 }, lsb),
    }
}

/// `count` single-bit steps: the property's own wording ("behave as that many
/// single-bit 8086 steps").
pub fn sh_n(k: Sh, w: u32, v: u32, cf: bool, count: u32) -> (u32, bool) {
    let mut v = v;
    let mut cf = cf;
    let mut i = 0;
    while i < count {
        let (nv, ncf) = sh_step(k, w, v, cf);
        v = nv;
        cf = ncf;
        i += 1;
    }
    (v, cf)
}

/// OF after a shift/rotate by exactly one bit.
pub fn sh_of1(k: Sh, w: u32, orig: u32, res: u32, cf_after: bool) -> bool {
    let top = 1u32 << (w - 1);
    let top2 = top >> 1;
    match k {
        Sh::Sal | Sh::Rol | Sh::Rcl => (res & top != 0) != cf_after,
        Sh::Shr => orig & top != 0,
        Sh::Sar => false,
        Sh::Ror | Sh::Rcr => (res & top != 0) != (res & top2 != 0),
    }
}

/// Expected FLAGS word after a shift/rotate, and the mask of bits that are
/// architecturally defined for this (kind, count).
///  count == 0            : nothing changes, every bit compared
///  shifts, count >= 1    : CF, SF, ZF, PF defined, AF unchanged (property C02); OF only for count == 1
///  rotates, count >= 1   : CF defined; OF only for count == 1; SF/ZF/PF/AF must be unchanged
pub fn sh_flags(k: Sh, w: u32, orig: u32, cf_in: bool, count: u32, old: u16) -> (u32, u16, u16) {
    if count == 0 {
        return (orig, old, 0xFFFF);
    }
    let (res, cf) = sh_n(k, w, orig, cf_in, count);
    let is_shift = matches!(k, Sh::Sal | Sh::Shr | Sh::Sar);
    let mut f = old & !(CF);
    if cf {
        f |= CF;
    }
    let mut mask: u16 = 0xFFFF & !OF;
    if is_shift {
        let szp = if w == 8 { szp8(res as u8) } else { szp16(res as u16) };
        f = merge(f, szp, SF | ZF | PF);
        // AF: the manual leaves it undefined after a shift, the property statement (C02) says
        // "nothing else in the machine changes": the stricter reading is checked (AF unchanged)
    }
    if count == 1 {
        mask |= OF;
        f &= !OF;
        if sh_of1(k, w, orig, res, cf) {
            f |= OF;
        }
    }
    (res, f, mask)
}

// ------------------------------------------------------------ mul / div ----

/// MUL byte: (AX, CF=OF)
pub fn mul8(al: u8, v: u8) -> (u16, bool) {
    let p = al as u16 * v as u16;
    (p, p >> 8 != 0)
}
/// IMUL byte: (AX, CF=OF)
pub fn imul8(al: u8, v: u8) -> (u16, bool) {
    let p = (al as i8 as i32) * (v as i8 as i32);
    let ax = p as u16;
    (ax, p != (ax as u8 as i8 as i32))
}
/// MUL word: (DX, AX, CF=OF)
pub fn mul16(ax: u16, v: u16) -> (u16, u16, bool) {
    let p = ax as u32 * v as u32;
    ((p >> 16) as u16, p as u16, p >> 16 != 0)
}
/// IMUL word: (DX, AX, CF=OF)
pub fn imul16(ax: u16, v: u16) -> (u16, u16, bool) {
    let p = (ax as i16 as i64) * (v as i16 as i64);
    let lo = p as u16;
    (((p >> 16) & 0xFFFF) as u16, lo, p != (lo as i16 as i64))
}
/// Bits compared after MUL/IMUL (SF, ZF, AF, PF undefined).
pub const MUL_MASK: u16 = !(SF | ZF | AF | PF);

#[derive(Clone, Copy, PartialEq, Eq, Debug)]
pub enum DivOut {
    /// quotient, remainder
    Ok(u16, u16),
    /// divide error (INT 0) is the only acceptable outcome
    Fault,
    /// the single quotient -2^(w-1) of IDIV: the 8086 manual faults, the
    /// property text only says "does not fit": either outcome accepted.
    Either(u16, u16),
}
pub fn div8(ax: u16, v: u8) -> DivOut {
    if v == 0 {
        return DivOut::Fault;
    }
    let q = ax as u32 / v as u32;
    let r = ax as u32 % v as u32;
    if q > 0xFF {
        DivOut::Fault
    } else {
        DivOut::Ok(q as u16, r as u16)
    }
}
pub fn idiv8(ax: u16, v: u8) -> DivOut {
    if v == 0 {
        return DivOut::Fault;
    }
    let n = ax as i16 as i32;
    let d = v as i8 as i32;
    let q = n / d; // Rust integer division truncates toward zero, like IDIV
    let r = n % d;
    if q > 127 || q < -128 {
        DivOut::Fault
    } else if q == -128 {
        DivOut::Either(q as u8 as u16, r as u8 as u16)
    } else {
        DivOut::Ok(q as u8 as u16, r as u8 as u16)
    }
}
pub fn div16(dx: u16, ax: u16, v: u16) -> DivOut {
    if v == 0 {
        return DivOut::Fault;
    }
    let n = ((dx as u32) << 16) | ax as u32;
    let q = n / v as u32;
    let r = n % v as u32;
    if q > 0xFFFF {
        DivOut::Fault
    } else {
        DivOut::Ok(q as u16, r as u16)
    }
}
pub fn idiv16(dx: u16, ax: u16, v: u16) -> DivOut {
    if v == 0 {
        return DivOut::Fault;
    }
    let n = (((dx as u32) << 16) | ax as u32) as i32;
    let d = v as i16 as i32;
    if n == i32::MIN && d == -1 {
        return DivOut::Fault; // quotient 2^31 fits nowhere
    }
    let q = n / d; // truncates toward zero, like IDIV
    let r = n % d;
    if q > 32767 || q < -32768 {
        DivOut::Fault
    } else if q == -32768 {
        DivOut::Either(q as u16, r as u16)
    } else {
        DivOut::Ok(q as u16, r as u16)
    }
}

// ------------------------------------------------------ decimal adjusts ----
// Each returns (AX', FLAGS', mask of compared FLAGS bits).

const NONSTATUS: u16 = !STATUS6;

pub fn aaa(ax: u16, flags: u16) -> (u16, u16, u16) {
    let mut al = ax as u8;
    let mut ah = (ax >> 8) as u8;
    let mut f = flags & !(AF | CF);
    if (al & 0x0F) > 9 || flags & AF != 0 {
        al = al.wrapping_add(6);
        ah = ah.wrapping_add(1);
        f |= AF | CF;
    }
    al &= 0x0F;
    (((ah as u16) << 8) | al as u16, f, NONSTATUS | AF | CF)
}
pub fn aas(ax: u16, flags: u16) -> (u16, u16, u16) {
    let mut al = ax as u8;
    let mut ah = (ax >> 8) as u8;
    let mut f = flags & !(AF | CF);
    if (al & 0x0F) > 9 || flags & AF != 0 {
        al = al.wrapping_sub(6);
        ah = ah.wrapping_sub(1);
        f |= AF | CF;
    }
    al &= 0x0F;
    (((ah as u16) << 8) | al as u16, f, NONSTATUS | AF | CF)
}
pub fn daa(ax: u16, flags: u16) -> (u16, u16, u16) {
    let mut al = ax as u8;
    let mut f = flags & !(AF | CF);
    if (al & 0x0F) > 9 || flags & AF != 0 {
        al = al.wrapping_add(6);
        f |= AF;
    }
    if al > 0x9F || flags & CF != 0 {
        al = al.wrapping_add(0x60);
        f |= CF;
    }
    f = merge(f, szp8(al), SF | ZF | PF);
    ((ax & 0xFF00) | al as u16, f, NONSTATUS | AF | CF | SF | ZF | PF)
}
pub fn das(ax: u16, flags: u16) -> (u16, u16, u16) {
    let mut al = ax as u8;
    let mut f = flags & !(AF | CF);
    if (al & 0x0F) > 9 || flags & AF != 0 {
        al = al.wrapping_sub(6);
        f |= AF;
    }
    if al > 0x9F || flags & CF != 0 {
        al = al.wrapping_sub(0x60);
        f |= CF;
    }
    f = merge(f, szp8(al), SF | ZF | PF);
    ((ax & 0xFF00) | al as u16, f, NONSTATUS | AF | CF | SF | ZF | PF)
}
pub fn aam(ax: u16, flags: u16) -> (u16, u16, u16) {
    let al = ax as u8;
    let ah = al / 10;
    let al = al % 10;
    let f = merge(flags, szp8(al), SF | ZF | PF);
    (((ah as u16) << 8) | al as u16, f, NONSTATUS | SF | ZF | PF)
}
pub fn aad(ax: u16, flags: u16) -> (u16, u16, u16) {
    let al = ax as u8;
    let ah = (ax >> 8) as u8;
    let r = ah.wrapping_mul(10).wrapping_add(al);
    let f = merge(flags, szp8(r), SF | ZF | PF);
    (r as u16, f, NONSTATUS | SF | ZF | PF)
}
pub fn cbw(ax: u16) -> u16 {
    ax as u8 as i8 as i16 as u16
}
/// CWD: DX
pub fn cwd(ax: u16) -> u16 {
    if ax & 0x8000 != 0 {
        0xFFFF
    } else {
        0
    }
}

// ---------------------------------------------------------- addressing -----

#[inline]
pub fn phys(seg: u16, off: u16) -> usize {
    (((seg as usize) << 4) + off as usize) & (MB - 1)
}
#[inline]
pub fn next(a: usize) -> usize {
    (a + 1) & (MB - 1)
}

// ------------------------------------------------------- conditions --------

/// Intel Jcc / JCXZ / LOOPx predicate for the interpreter's mnemonics and all
/// synonym spellings (lower case). `cx` is the value AFTER the decrement for
/// the LOOP family and the current value for JCXZ.
pub fn cond(m: &str, f: u16, cx: u16) -> Option<bool> {
    let cf = f & CF != 0;
    let zf = f & ZF != 0;
    let sf = f & SF != 0;
    let of = f & OF != 0;
    let pf = f & PF != 0;
    Some(match m {
        "jmp" => true,
        "ja" | "jnbe" => !cf && !zf,
        "jae" | "jnb" | "jnc" => !cf,
        "jb" | "jnae" | "jc" => cf,
        "jbe" | "jna" => cf || zf,
        "je" | "jz" => zf,
        "jne" | "jnz" => !zf,
        "jg" | "jnle" => !zf && sf == of,
        "jge" | "jnl" => sf == of,
        "jl" | "jnge" => sf != of,
        "jle" | "jng" => zf || sf != of,
        "jo" => of,
        "jno" => !of,
        "jp" | "jpe" => pf,
        "jnp" | "jpo" => !pf,
        "js" => sf,
        "jns" => !sf,
        "jcxz" => cx == 0,
        "loop" => cx != 0,
        "loope" | "loopz" => cx != 0 && zf,
        "loopne" | "loopnz" => cx != 0 && !zf,
        _ => return None,
    })
}
