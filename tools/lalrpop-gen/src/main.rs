// Regenerates every LALRPOP-generated parser below <dir> exactly the way the
// repository's own build.rs does (generate_in_source_tree), without compiling
// the repository. Used on the scratch copy of /repo at the start of every check.
fn main() {
    let dir = std::env::args().nth(1).expect("usage: lalrpop-gen <src-dir>");
    let mut cfg = lalrpop::Configuration::new();
    cfg.generate_in_source_tree();
    if std::env::var("LALRPOP_GEN_FORCE").is_ok() {
        cfg.force_build(true);
    }
    cfg.process_dir(dir).unwrap();
}
