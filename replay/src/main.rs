// Native replay tool: re-executes a verifier counterexample on the REAL crate (the scratch
// copy of /repo's working tree) and judges it with the same i8086_spec.rs the contracts use.
//
// Line protocol on stdin, one request per line, one JSON-ish answer line per request:
//   l1b <fn> <flag> <op1> <op2>                     binary L1 function
//   l1u <fn> <flag> <ax> <dx> <val>                 unary L1 function (Result)
//   l1n <fn> <flag> <ax> <dx>                       nullary L1 function (adjusts, cbw, cwd)
//   run <14 regs> <npokes> (<addr> <val>)* <nlabels> (<name> <map>)* | <instruction line>
//        -> outcome, 14 regs, then the poked cells and their successors
//   asm <source text, "\\n" for a line break>        the real assembler on that text -> emitted code / data lines or the diagnostic
//   data <line>                                     the real data loader on one emitted data line (fresh machine, counter 0) -> ok / error text
//   dump cells: after `run`, `cells <addr>*` are appended to the same request:  ... ; <addr>*
#[path = "../../spec/i8086_spec.rs"]
mod spec;

use emulator_8086_lib as lib;
use lib::instructions::{arithmetic as ar, bit_manipulation as bm};
use lib::util::preprocessor_util::{Label, LabelType};
use lib::{Interpreter, InterpreterContext, VM};
use std::io::BufRead;

fn regs_json(vm: &VM) -> String {
    let a = &vm.arch;
    format!(
        "\"flag\":{},\"ax\":{},\"bx\":{},\"cx\":{},\"dx\":{},\"sp\":{},\"bp\":{},\"si\":{},\"di\":{},\"ip\":{},\"cs\":{},\"ds\":{},\"ss\":{},\"es\":{}",
        a.flag, a.ax, a.bx, a.cx, a.dx, a.sp, a.bp, a.si, a.di, a.ip, a.cs, a.ds, a.ss, a.es
    )
}

fn set_regs(vm: &mut VM, r: &[u16]) {
    let a = &mut vm.arch;
    a.flag = r[0];
    a.ax = r[1];
    a.bx = r[2];
    a.cx = r[3];
    a.dx = r[4];
    a.sp = r[5];
    a.bp = r[6];
    a.si = r[7];
    a.di = r[8];
    a.ip = r[9];
    a.cs = r[10];
    a.ds = r[11];
    a.ss = r[12];
    a.es = r[13];
}

fn catch<F: FnOnce() -> String + std::panic::UnwindSafe>(f: F) -> String {
    match std::panic::catch_unwind(f) {
        Ok(s) => s,
        Err(e) => {
            let msg = if let Some(s) = e.downcast_ref::<String>() {
                s.clone()
            } else if let Some(s) = e.downcast_ref::<&str>() {
                s.to_string()
            } else {
                "panic".to_string()
            };
            format!("{{\"panic\":{:?}}}", msg)
        }
    }
}

fn l1b(f: &str, flag: u16, a: u16, b: u16) -> String {
    let mut vm = VM::new();
    vm.arch.flag = flag;
    let cf = flag & 1 != 0;
    type B = fn(&mut VM, u8, u8) -> u8;
    type W = fn(&mut VM, u16, u16) -> u16;
    let bf: Option<B> = match f {
        "byte_add" => Some(ar::byte_add), "byte_adc" => Some(ar::byte_adc), "byte_sub" => Some(ar::byte_sub),
        "byte_sbb" => Some(ar::byte_sbb), "byte_cmp" => Some(ar::byte_cmp),
        "byte_and" => Some(bm::byte_and), "byte_or" => Some(bm::byte_or), "byte_xor" => Some(bm::byte_xor), "byte_test" => Some(bm::byte_test),
        "byte_sal" => Some(bm::byte_sal), "byte_shr" => Some(bm::byte_shr), "byte_sar" => Some(bm::byte_sar),
        "byte_rol" => Some(bm::byte_rol), "byte_ror" => Some(bm::byte_ror), "byte_rcl" => Some(bm::byte_rcl), "byte_rcr" => Some(bm::byte_rcr),
        _ => None,
    };
    let wf: Option<W> = match f {
        "word_add" => Some(ar::word_add), "word_adc" => Some(ar::word_adc), "word_sub" => Some(ar::word_sub),
        "word_sbb" => Some(ar::word_sbb), "word_cmp" => Some(ar::word_cmp),
        "word_and" => Some(bm::word_and), "word_or" => Some(bm::word_or), "word_xor" => Some(bm::word_xor), "word_test" => Some(bm::word_test),
        "word_sal" => Some(bm::word_sal), "word_shr" => Some(bm::word_shr), "word_sar" => Some(bm::word_sar),
        "word_rol" => Some(bm::word_rol), "word_ror" => Some(bm::word_ror), "word_rcl" => Some(bm::word_rcl), "word_rcr" => Some(bm::word_rcr),
        _ => None,
    };
    let (w, ret): (u32, u16) = if let Some(g) = bf {
        (8, g(&mut vm, a as u8, b as u8) as u16)
    } else if let Some(g) = wf {
        (16, g(&mut vm, a, b))
    } else {
        return format!("{{\"error\":\"unknown function {}\"}}", f);
    };
    let name = &f[5..];
    // expected (result, flags, mask of compared flag bits)
    let (er, ef, mask): (u16, u16, u16) = match name {
        "add" | "adc" | "sub" | "sbb" | "cmp" => {
            let op = match name { "add" => spec::Alu::Add, "adc" => spec::Alu::Adc, "sub" => spec::Alu::Sub, "sbb" => spec::Alu::Sbb, _ => spec::Alu::Cmp };
            let (r, fl) = if w == 8 { let (r, fl) = spec::alu8(op, a as u8, b as u8, cf); (r as u16, fl) } else { spec::alu16(op, a, b, cf) };
            (if name == "cmp" { a } else { r }, spec::merge(flag, fl, spec::STATUS6), 0xFFFF)
        }
        "and" | "or" | "xor" | "test" => {
            let op = match name { "and" => spec::Logic::And, "or" => spec::Logic::Or, "xor" => spec::Logic::Xor, _ => spec::Logic::Test };
            let (r, fl) = if w == 8 { let (r, fl) = spec::logic8(op, a as u8, b as u8); (r as u16, fl) } else { spec::logic16(op, a, b) };
            (if name == "test" { a } else { r }, spec::merge(flag, fl, spec::STATUS6 & !spec::AF), 0xFFFF)
        }
        _ => {
            let k = match name { "sal" => spec::Sh::Sal, "shr" => spec::Sh::Shr, "sar" => spec::Sh::Sar, "rol" => spec::Sh::Rol, "ror" => spec::Sh::Ror, "rcl" => spec::Sh::Rcl, _ => spec::Sh::Rcr };
            let (r, fl, m) = spec::sh_flags(k, w, a as u32, cf, b as u32, flag);
            (r as u16, fl, m)
        }
    };
    let ok = ret == er && (vm.arch.flag ^ ef) & mask == 0;
    format!(
        "{{\"observed\":{{\"ret\":{},\"flag\":{}}},\"expected\":{{\"ret\":{},\"flag\":{},\"flag_mask\":{}}},\"mismatch\":{}}}",
        ret, vm.arch.flag, er, ef, mask, !ok
    )
}

fn l1u(f: &str, flag: u16, ax: u16, dx: u16, val: u16) -> String {
    let mut vm = VM::new();
    vm.arch.flag = flag;
    vm.arch.ax = ax;
    vm.arch.dx = dx;
    let byte = f.starts_with("byte_");
    let name = &f[5..];
    let (res_ok, newval): (bool, u16) = if byte {
        let mut v = val as u8;
        let g: fn(&mut VM, &mut u8) -> Result<(), lib::util::interpreter_util::DivByZero> = match name {
            "inc" => ar::byte_inc, "dec" => ar::byte_dec, "neg" => ar::byte_neg, "mul" => ar::byte_mul,
            "imul" => ar::byte_imul, "div" => ar::byte_div, "idiv" => ar::byte_idiv,
            _ => return format!("{{\"error\":\"unknown function {}\"}}", f),
        };
        (g(&mut vm, &mut v).is_ok(), v as u16)
    } else {
        let mut v = val;
        let g: fn(&mut VM, &mut u16) -> Result<(), lib::util::interpreter_util::DivByZero> = match name {
            "inc" => ar::word_inc, "dec" => ar::word_dec, "neg" => ar::word_neg, "mul" => ar::word_mul,
            "imul" => ar::word_imul, "div" => ar::word_div, "idiv" => ar::word_idiv,
            _ => return format!("{{\"error\":\"unknown function {}\"}}", f),
        };
        (g(&mut vm, &mut v).is_ok(), v)
    };
    // expected: ok?, val, ax, dx, flag, flag mask ; None = either
    let mut exp_ok: Option<bool> = Some(true);
    let (mut ev, mut eax, mut edx, mut ef, mut mask) = (val, ax, dx, flag, 0xFFFFu16);
    match name {
        "inc" | "dec" | "neg" => {
            let op = match name { "inc" => spec::Una::Inc, "dec" => spec::Una::Dec, _ => spec::Una::Neg };
            if byte { let (r, fl) = spec::una8(op, val as u8, flag); ev = r as u16; ef = fl; } else { let (r, fl) = spec::una16(op, val, flag); ev = r; ef = fl; }
        }
        "mul" | "imul" => {
            let c;
            if byte {
                let (p, cc) = if name == "mul" { spec::mul8(ax as u8, val as u8) } else { spec::imul8(ax as u8, val as u8) };
                eax = p; c = cc;
            } else {
                let (d, a2, cc) = if name == "mul" { spec::mul16(ax, val) } else { spec::imul16(ax, val) };
                eax = a2; edx = d; c = cc;
            }
            ef = (flag & !(spec::CF | spec::OF)) | if c { spec::CF | spec::OF } else { 0 };
            mask = spec::MUL_MASK;
        }
        _ => {
            let d = match (name, byte) {
                ("div", true) => spec::div8(ax, val as u8), ("idiv", true) => spec::idiv8(ax, val as u8),
                ("div", false) => spec::div16(dx, ax, val), _ => spec::idiv16(dx, ax, val),
            };
            mask = !spec::STATUS6;
            match d {
                spec::DivOut::Fault => exp_ok = Some(false),
                spec::DivOut::Ok(q, r) => { if byte { eax = (r << 8) | (q & 0xFF); } else { eax = q; edx = r; } }
                spec::DivOut::Either(q, r) => {
                    exp_ok = None;
                    if res_ok { if byte { eax = (r << 8) | (q & 0xFF); } else { eax = q; edx = r; } }
                }
            }
        }
    }
    let mut ok = exp_ok.map_or(true, |e| e == res_ok);
    if res_ok {
        ok = ok && newval == ev && vm.arch.ax == eax && vm.arch.dx == edx && (vm.arch.flag ^ ef) & mask == 0;
    } else {
        ok = ok && vm.arch.ax == ax && vm.arch.dx == dx && newval == val;
    }
    format!(
        "{{\"observed\":{{\"ok\":{},\"val\":{},\"ax\":{},\"dx\":{},\"flag\":{}}},\"expected\":{{\"ok\":{},\"val\":{},\"ax\":{},\"dx\":{},\"flag\":{},\"flag_mask\":{}}},\"mismatch\":{}}}",
        res_ok, newval, vm.arch.ax, vm.arch.dx, vm.arch.flag,
        match exp_ok { Some(true) => "true", Some(false) => "false", None => "\"either\"" },
        ev, eax, edx, ef, mask, !ok
    )
}

fn l1n(f: &str, flag: u16, ax: u16, dx: u16) -> String {
    let mut vm = VM::new();
    vm.arch.flag = flag;
    vm.arch.ax = ax;
    vm.arch.dx = dx;
    let g: fn(&mut VM) = match f {
        "aaa" => ar::aaa, "aas" => ar::aas, "daa" => ar::daa, "das" => ar::das, "aam" => ar::aam, "aad" => ar::aad,
        "cbw" => ar::cbw, "cwd" => ar::cwd,
        _ => return format!("{{\"error\":\"unknown function {}\"}}", f),
    };
    g(&mut vm);
    let (eax, edx, ef, mask) = match f {
        "cbw" => (spec::cbw(ax), dx, flag, 0xFFFF),
        "cwd" => (ax, spec::cwd(ax), flag, 0xFFFF),
        _ => {
            let (a, fl, m) = match f { "aaa" => spec::aaa(ax, flag), "aas" => spec::aas(ax, flag), "daa" => spec::daa(ax, flag),
                                       "das" => spec::das(ax, flag), "aam" => spec::aam(ax, flag), _ => spec::aad(ax, flag) };
            (a, dx, fl, m)
        }
    };
    let ok = vm.arch.ax == eax && vm.arch.dx == edx && (vm.arch.flag ^ ef) & mask == 0;
    format!(
        "{{\"observed\":{{\"ax\":{},\"dx\":{},\"flag\":{}}},\"expected\":{{\"ax\":{},\"dx\":{},\"flag\":{},\"flag_mask\":{}}},\"mismatch\":{}}}",
        vm.arch.ax, vm.arch.dx, vm.arch.flag, eax, edx, ef, mask, !ok
    )
}

fn run(req: &str, filled: bool) -> String {
    // "<header tokens> | <line> ; <cells>"   (runf: the first header token is the value every memory cell not poked starts with)
    let (head, rest) = match req.find('|') { Some(i) => (&req[..i], &req[i + 1..]), None => return "{\"error\":\"no line\"}".into() };
    let (line, cells) = match rest.find(';') { Some(i) => (rest[..i].trim(), rest[i + 1..].trim()), None => (rest.trim(), "") };
    let t: Vec<&str> = head.split_whitespace().collect();
    let mut vm = VM::new();
    let mut k = 0;
    if filled {
        let f: u64 = t[0].parse().unwrap();
        for c in vm.mem.iter_mut() {
            *c = f as u8;
        }
        k = 1;
    }
    let regs: Vec<u16> = t[k..k + 14].iter().map(|x| x.parse::<u64>().unwrap() as u16).collect();
    k += 14;
    set_regs(&mut vm, &regs);
    let np: usize = t[k].parse().unwrap();
    k += 1;
    for _ in 0..np {
        let a: usize = t[k].parse().unwrap();
        let v: u64 = t[k + 1].parse().unwrap();
        vm.mem[a % (1 << 20)] = v as u8;
        k += 2;
    }
    let nl: usize = t[k].parse().unwrap();
    k += 1;
    let mut ctx = InterpreterContext::default();
    for _ in 0..nl {
        let kind = if t[k].starts_with('@') { LabelType::CODE } else { LabelType::DATA };
        let name = t[k].trim_start_matches('@').to_string();
        let map: usize = t[k + 1].parse().unwrap();
        ctx.label_map.insert(name, Label::new(kind, 0, map));
        k += 2;
    }
    let cells: Vec<usize> = cells.split_whitespace().map(|x| x.parse().unwrap()).collect();
    let line = line.to_string();
    let mut vm = std::panic::AssertUnwindSafe(vm);
    let mut ctx = std::panic::AssertUnwindSafe(ctx);
    catch(move || {
        let p = Interpreter::new();
        let out = match p.parse(1, &mut vm, &mut ctx, &line) {
            Ok(s) => format!("{:?}", s),
            Err(e) => format!("Err({})", e).replace('"', "'").replace('\n', " "),
        };
        let cs: Vec<String> = cells.iter().map(|a| format!("[{},{}]", a, vm.mem[*a % (1 << 20)])).collect();
        format!("{{\"outcome\":\"{}\",{},\"cells\":[{}],\"call_stack\":{:?}}}", out, regs_json(&vm), cs.join(","), ctx.call_stack)
    })
}

fn jstr(s: &str) -> String {
    let mut o = String::from("\"");
    for c in s.chars() {
        match c {
            '"' => o.push_str("\\\""),
            '\\' => o.push_str("\\\\"),
            '\n' => o.push_str("\\n"),
            '\t' => o.push_str("\\t"),
            c if (c as u32) < 0x20 => o.push_str(&format!("\\u{:04x}", c as u32)),
            c => o.push(c),
        }
    }
    o.push('"');
    o
}

/// the real assembler on a source text: what it emitted (or its diagnostic)
fn asm(rest: &str) -> String {
    let src = rest.trim().replace("\\n", "\n");
    catch(move || {
        let mut ctx = lib::PreprocessorContext::default();
        let mut out = lib::PreprocessorOutput::default();
        let p = lib::Preprocessor::new();
        match p.parse(&mut ctx, &mut out, &src) {
            Ok(_) => format!(
                "{{\"ok\":true,\"code\":[{}],\"data\":[{}]}}",
                out.code.iter().map(|x| jstr(x)).collect::<Vec<_>>().join(","),
                out.data.iter().map(|x| jstr(x)).collect::<Vec<_>>().join(",")
            ),
            Err(e) => format!("{{\"ok\":false,\"diagnostic\":{}}}", jstr(&format!("{}", e))),
        }
    })
}

/// the real data loader on one line
fn data(rest: &str) -> String {
    let line = rest.trim().to_string();
    catch(move || {
        let p = lib::DataParser::new();
        let mut vm = VM::new();
        let mut ctr = 0;
        match p.parse(&mut vm, &mut ctr, &line) {
            Ok(_) => format!("{{\"ok\":true,\"counter\":{}}}", ctr),
            Err(e) => format!("{{\"ok\":false,\"error\":{}}}", jstr(&format!("{}", e))),
        }
    })
}

fn main() {
    std::panic::set_hook(Box::new(|_| {}));
    let stdin = std::io::stdin();
    for ln in stdin.lock().lines() {
        let ln = ln.unwrap();
        let ln = ln.trim();
        if ln.is_empty() {
            continue;
        }
        let (cmd, rest) = ln.split_at(ln.find(' ').unwrap_or(ln.len()));
        let t: Vec<String> = rest.split_whitespace().map(|s| s.to_string()).collect();
        let n = |i: usize| t[i].parse::<i64>().unwrap() as u16;
        let out = match cmd {
            "l1b" => { let (f, a, b, c) = (t[0].clone(), n(1), n(2), n(3)); catch(move || l1b(&f, a, b, c)) }
            "l1u" => { let (f, a, b, c, d) = (t[0].clone(), n(1), n(2), n(3), n(4)); catch(move || l1u(&f, a, b, c, d)) }
            "l1n" => { let (f, a, b, c) = (t[0].clone(), n(1), n(2), n(3)); catch(move || l1n(&f, a, b, c)) }
            "run" => run(rest, false),
            "runf" => run(rest, true),
            "asm" => asm(rest),
            "data" => data(rest),
            _ => "{\"error\":\"unknown command\"}".to_string(),
        };
        println!("{}", out);
    }
}
