#!/usr/bin/env python3
"""for every emitting assembler production: sample source of its form -> real assembler -> the emitted line -> real Interpreter::parse.
A syntax error there means the interpreter has no production for the line (C10 defect) or the token-view spec is wrong."""
import sys, os, json, re
sys.path.insert(0, '/verif/lib')
import scratch, verus_extract, verus_engine, replay, text_replay
root = scratch.make_copy('selfc')
try:
    dst = root + '/repo'
    ex = verus_extract.Extractor(dst)
    verus_engine.assembler_emitters(ex)
    tool = replay.build_tool(dst)
    bad = 0
    for name, (p, a, units, prods) in sorted(verus_engine.EM_INFO.items(), key=lambda x: int(x[0][3:])):
        if units is None:
            continue
        b = text_replay.build(p, a, units, prods)
        if b is None:
            print(name, p.sig, 'NO SAMPLE'); continue
        src, exp = b
        obs = replay.ask(tool, ["asm " + src.replace("\n", "\\n")])[0]
        if not obs.get('ok'):
            print(name, p.sig, '| sample not assembled:', src.replace('\n', ' / '), '|', str(obs)[:120]); bad += 1; continue
        line = obs['code'][-1]
        got = text_replay.TOK.findall(line)
        regs = " ".join(["0"] * 14)
        labs = "lb 16 lw 32 @tgt 1"
        req = f"run {regs} 0 3 {labs} | {line} ; "
        o = replay.ask(tool, [req])[0]
        out = str(o.get('outcome', o))
        synt = re.search(r"Unrecognized token `[^`]+`|Invalid token|Unrecognized EOF", out)
        flag = '' if got == exp else ' TEXT-MISMATCH'
        if synt or flag:
            print(name, p.sig, '|', src.replace('\n', ' / '), '=>', line, '| interpreter:', out[:150], flag); bad += 1
    print('checked', len(verus_engine.EM_INFO), 'bad', bad)
finally:
    scratch.remove_copy(root)
