#!/usr/bin/env python3
"""run each seeded change against a COPY of /repo's HEAD (VERIF_REPO), several at a time; /repo itself is not touched"""
import json, os, subprocess, sys, time, shutil
from concurrent.futures import ThreadPoolExecutor
src, outf = sys.argv[1], sys.argv[2]
only = sys.argv[3:]
def one(d):
    p = os.path.join(src, d)
    meta = json.load(open(os.path.join(p, 'meta.json'))); pid = meta['property']
    root = f'/var/tmp/mut/{d}'
    shutil.rmtree(root, ignore_errors=True); os.makedirs(root)
    subprocess.run(f'git -C /repo archive HEAD | tar -x -C {root}', shell=True, check=True)
    shutil.copy('/repo/Cargo.lock', root)
    a = subprocess.run(['git', 'apply', '--directory', root, os.path.join(p, 'patch.diff')], capture_output=True, text=True, cwd='/')
    if a.returncode != 0:
        a = subprocess.run(['patch', '-p1', '-d', root, '-i', os.path.join(p, 'patch.diff')], capture_output=True, text=True)
        if a.returncode != 0:
            return d, 'patch does not apply: ' + (a.stderr + a.stdout)[:300]
    env = dict(os.environ, VERIF_REPO=root, VERIF_SCRATCH=f'/var/tmp/verif8086_{d}', VERIF_JOBS='5', VERIF_EVIDENCE_DIR=f'/var/tmp/mut_ev/{d}',
               VERIF_REPLAY_DIR=f'/var/tmp/mut_replays/{d}')
    t = time.time()
    chk = os.environ.get('VERIF_CHECK_DIR', '/verif')
    r = subprocess.run([chk + '/check', pid], capture_output=True, text=True, cwd=chk, env=env, timeout=5400)
    viol = [l for l in r.stdout.split('\n') if l.startswith('VIOLATION')]
    und = [l for l in r.stdout.split('\n') if l.startswith('UNDECIDED')]
    shutil.rmtree(root, ignore_errors=True)
    res = {'property': pid, 'exit': r.returncode, 'violations': len(viol), 'first': viol[:2], 'undecided': [u[:200] for u in und[:2]], 'wall': round(time.time() - t)}
    print(d, json.dumps(res)[:400], flush=True)
    return d, res
ds = [d for d in sorted(os.listdir(src)) if os.path.exists(os.path.join(src, d, 'patch.diff')) and (not only or d in only)]
with ThreadPoolExecutor(max_workers=3) as ex:
    res = dict(ex.map(one, ds))
json.dump(res, open(outf, 'w'), indent=1)
