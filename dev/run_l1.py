import sys, os, json, time
sys.path.insert(0, '/verif/lib')
import scratch, kani_l1, kani_run
root = scratch.make_copy('dev')
dst = root + '/repo'
print(dst)
an = scratch.Annotator(dst)
an.append('src/lib/lib.rs', '\n#[cfg(kani)]\n#[path = "/verif/spec/i8086_spec.rs"]\npub mod i8086_spec;\n#[cfg(kani)]\n#[path = "/verif/contracts/kani/verif_support.rs"]\npub mod verif_support;\n')
names = []
only = sys.argv[1:] 
skip = os.environ.get('SKIPFILES','').split(',')
for f, cs in kani_l1.CONTRACTS.items():
    if any(k and k in f for k in skip): continue
    for c in cs:
        an.attrs_above(f, c.fn, kani_l1.attrs(c))
        names.append('c_' + c.fn)
    an.append(f, kani_l1.harness_module(f, cs))
for f, hs in kani_l1.L0_HARNESSES.items():
    an.append(f, kani_l1.l0_module(hs)); names += [h.name for h in hs]
diff = an.commit()
open(root + '/annot.diff', 'w').write(diff)
if only: names = [n for n in names if any(o in n for o in only)]
t = time.time()
Z = ['c_'+c.fn for cs in kani_l1.CONTRACTS.values() for c in cs if c.klass=='Z']
res = kani_run.run_batch(dst, [n for n in names if n not in Z], int(os.environ.get('J','6')), False, 3000, root + '/kani.log')
res.update(kani_run.run_batch(dst, [n for n in names if n in Z], 4, False, 3000, root + '/kani.log', extra=['--solver','z3'], harness_timeout=300))
print('wall', time.time() - t)
for h, r in sorted(res.items()):
    print(h, r.status, r.time_s, r.checks_total)
    for fc in r.failed_checks:
        import re
        m = re.search(r'clause\("([^"]+)"', fc)
        print('    FAIL', m.group(1) if m else fc[:200])
