#!/usr/bin/env python3
"""confirm each seeded change in a scratch worktree: suite passes with it, demo fails with it and passes without"""
import json, os, subprocess, sys, shutil
src = sys.argv[1]; wt = '/tmp/wt_verify'
def sh(cmd, cwd=wt, inp=None, to=900):
    return subprocess.run(cmd, cwd=cwd, shell=isinstance(cmd,str), capture_output=True, text=True, input=inp, timeout=to)
if not os.path.exists(wt):
    subprocess.run(['git','-C','/repo','worktree','add','--detach',wt,'HEAD','-q'])
out = {}
for d in sorted(os.listdir(src)):
    p = os.path.join(src, d)
    if not os.path.exists(os.path.join(p,'patch.diff')): continue
    sh('git checkout -- . && git clean -fdq -e target', wt)
    def demo():
        if os.path.exists(os.path.join(p,'seeded_demo.rs')):
            os.makedirs(wt+'/tests', exist_ok=True); shutil.copy(os.path.join(p,'seeded_demo.rs'), wt+'/tests/seeded_demo.rs')
            r = sh('cargo test --offline --test seeded_demo 2>&1 | tail -5'); os.remove(wt+'/tests/seeded_demo.rs')
            return 'test result: ok' in r.stdout
        if os.path.exists(os.path.join(p,'demo.diff')):
            a = sh(['git','apply',os.path.join(p,'demo.diff')])
            r = sh('cargo test --offline seeded_demo 2>&1 | grep "test result" | head -3')
            sh(['git','apply','-R',os.path.join(p,'demo.diff')])
            return a.returncode==0 and 'FAILED' not in r.stdout and 'ok.' in r.stdout
        if os.path.exists(os.path.join(p,'demo.s')):
            extra = open(os.path.join(p,'args.txt')).read().split() if os.path.exists(os.path.join(p,'args.txt')) else []
            r = sh(['cargo','run','--offline','-q','--'] + extra + [os.path.join(p,'demo.s')], inp=(open(os.path.join(p,'stdin.txt')).read() if os.path.exists(os.path.join(p,'stdin.txt')) else 'Q\n'))
            return r.returncode==0 and r.stdout == open(os.path.join(p,'expected_stdout.txt')).read()
        return None
    clean_ok = demo()
    a = sh(['git','apply',os.path.join(p,'patch.diff')])
    suite = sh('cargo test --offline 2>&1 | grep "^test result" | head -1').stdout
    mut_ok = demo()
    sh('git checkout -- . && git clean -fdq -e target', wt)
    out[d] = {'applies': a.returncode==0, 'suite_with_change': suite.strip()[:60], 'demo_passes_clean': clean_ok, 'demo_passes_with_change': mut_ok}
    print(d, out[d], flush=True)
json.dump(out, open('/var/tmp/seeded_verify.json','w'), indent=1)
