#!/usr/bin/env python3
import json, os
res = {}
for f in ('/var/tmp/seeded_results.json', '/var/tmp/seeded_results2.json', '/var/tmp/seeded_results3.json', '/var/tmp/seeded_results4.json', '/var/tmp/seeded_results5.json', '/var/tmp/seeded_results6.json', '/var/tmp/seeded_results6b.json'):
    if os.path.exists(f): res.update(json.load(open(f)))
ver = {}
for f in ('/var/tmp/seeded_verify1.json', '/var/tmp/seeded_verify2.json', '/var/tmp/seeded_verify3.json', '/var/tmp/seeded_verify4.json', '/var/tmp/seeded_verify5.json', '/var/tmp/seeded_verify6.json'):
    if os.path.exists(f): ver.update(json.load(open(f)))
rows = []
for d in sorted(os.listdir('/verif/seeded')):
    p = f'/verif/seeded/{d}'
    if not os.path.isdir(p) or not os.path.exists(p + '/meta.json'): continue
    m = json.load(open(p + '/meta.json'))
    r, v = res.get(d), ver.get(d)
    if v:
        m['confirmed_by_us'] = {'patch_applies': v['applies'], 'suite_with_change': v['suite_with_change'],
                                'demo_passes_on_clean_tree': v['demo_passes_clean'], 'demo_passes_with_change': v['demo_passes_with_change'],
                                'how': 'dev/verify_seeded.py in a scratch worktree /tmp/wt_verify (removed afterwards)'}
    if isinstance(r, dict):
        m['check_result'] = {'cmd': f"./check {r['property']} --tier quick", 'exit': r['exit'], 'violations': r['violations'],
                             'first_violation': (r['first'] or [''])[0], 'undecided': r['undecided'], 'wall_s': r['wall']}
    json.dump(m, open(p + '/meta.json', 'w'), indent=1)
    caught = 'caught' if isinstance(r, dict) and r['exit'] == 1 else ('MISSED' if isinstance(r, dict) and r['exit'] == 0 else ('undecided' if isinstance(r, dict) else 'not run'))
    ob = ''
    if isinstance(r, dict) and r['first']:
        ob = r['first'][0].split('obligation=')[-1]
    rows.append(f"| {d} | {m['property']} | {m['what'][:150].replace('|','/')} | {caught} | `{ob[:110]}` |")
open('/verif/seeded/README.md', 'w').write("# Seeded changes\n\nWritten by independent sub-agents that saw only the property text and a scratch worktree; each confirmed by us "
  "(suite 68/68 with the change, demo fails with it and passes without). `check` = exit status of the owning property's quick check with the change applied to /repo.\n\n"
  "| id | property | change | check | first refuted obligation |\n|---|---|---|---|---|\n" + "\n".join(rows) + "\n")
print("\n".join(rows))
