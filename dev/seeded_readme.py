#!/usr/bin/env python3
"""seeded_readme.py [--verify f.json ...] [--results f.json ...] [--rerun f.json ...]
merges verification / check results into seeded/<id>/meta.json, then rebuilds seeded/README.md from the metas alone
(--rerun: results of a later run, after the checks were strengthened; kept next to the first result)"""
import json, os, sys
ver, res, rerun = {}, {}, {}
cur = None
for a in sys.argv[1:]:
    if a in ("--verify", "--results", "--rerun"):
        cur = {"--verify": ver, "--results": res, "--rerun": rerun}[a]
    elif os.path.exists(a):
        cur.update(json.load(open(a)))
rows = []
n = {"caught": 0, "MISSED": 0, "undecided": 0, "not run": 0}
for d in sorted(os.listdir('/verif/seeded')):
    p = f'/verif/seeded/{d}'
    if not os.path.isdir(p) or not os.path.exists(p + '/meta.json'):
        continue
    m = json.load(open(p + '/meta.json'))
    v = ver.get(d)
    if v:
        m['confirmed_by_us'] = {'patch_applies': v['applies'], 'suite_with_change': v['suite_with_change'],
                                'demo_passes_on_clean_tree': v['demo_passes_clean'], 'demo_passes_with_change': v['demo_passes_with_change'],
                                'how': 'dev/verify_seeded.py in a scratch worktree /tmp/wt_verify (removed afterwards)'}
    for src, key in ((res, 'check_result'), (rerun, 'check_result_after_strengthening')):
        r = src.get(d)
        if isinstance(r, dict):
            m[key] = {'cmd': f"./check {r['property']} --tier quick", 'exit': r['exit'], 'violations': r['violations'],
                      'first_violation': (r['first'] or [''])[0], 'undecided': r['undecided'], 'wall_s': r['wall']}
    json.dump(m, open(p + '/meta.json', 'w'), indent=1)
    r = m.get('check_result_after_strengthening') or m.get('check_result')
    if r:
        caught = {1: 'caught', 0: 'MISSED'}.get(r['exit'], 'undecided')
    else:
        caught = 'not run'
    n[caught] += 1
    first = m.get('check_result')
    note = ''
    if m.get('check_result_after_strengthening') and first and first['exit'] != 1:
        note = f" (first run: {({0: 'missed', 2: 'undecided'}).get(first['exit'], first['exit'])}; checks strengthened since)"
    ob = (r or {}).get('first_violation', '').split('obligation=')[-1]
    prop = (r or {}).get('cmd', '').split()[1] if r else m['property']
    rows.append(f"| {d} | {m['property']}{'' if prop == m['property'] else ' (checked under ' + prop + ')'} | {m['what'][:150].replace('|', '/')} | {caught}{note} | `{ob[:110]}` |")
open('/verif/seeded/README.md', 'w').write("# Seeded changes\n\nWritten by independent sub-agents that saw only the property text and a scratch worktree; each confirmed by us "
  "(suite 68/68 with the change, demo fails with it and passes without). `check` = exit status of the owning property's quick check with the change applied to a copy of /repo's HEAD.\n\n"
  f"Totals: {n['caught']} caught, {n['undecided']} undecided (exit 2), {n['MISSED']} missed, {n['not run']} not run.\n\n"
  "| id | property | change | check | first refuted obligation |\n|---|---|---|---|---|\n" + "\n".join(rows) + "\n")
print(n)
