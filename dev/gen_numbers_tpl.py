#!/usr/bin/env python3
"""writes contracts/verus/numbers.rs: one contract per number-literal production of the four grammars (same shape each)"""
import os
HEAD = '''// Unit `numbers` (C14, C09, C12, C17): every number-literal production of the assembler, the interpreter, the data loader and the
// print reader, verbatim, for literals of ANY length.  Top-level postcondition (from C14): a constant is accepted iff its value
// is in the range of the operand type, and then with exactly its value (addresses: reduced modulo 1 MB); otherwise refused.
// The value of the digit text is an uninterpreted function; what links it to the code is the ASSUMED contract of std's
// from_str_radix below (for a well-formed digit string: Ok(v) iff the value fits the type, and v is the value).  The bounded
// Kani units b_pp_* execute the real from_str_radix on every literal of bounded length and stay as a cross-check of that assumption.
macro_rules! error {
    (  $s:expr,$e:expr,$err:expr ) => {{
        Err(ParseError::UnrecognizedToken {
            token: ($s, Token(0, ""), $e),
            expected: vec![$err],
        })
    }};
}

verus! {

pub struct Token(pub usize, pub &'static str);
pub enum ParseError {
    UnrecognizedToken { token: (usize, Token, usize), expected: Vec<String> },
    Other,
}

#[verifier::external_type_specification]
#[verifier::external_body]
pub struct ExParseIntError(core::num::ParseIntError);

/// mathematical value of a digit string in the radix, with an optional leading '-'
pub uninterp spec fn text_value(s: Seq<char>, radix: int) -> int;
/// the text is a well-formed number of the radix: optional '-', at least one digit, only digits of the radix
/// (what each literal token's regular expression admits, after its 0x / 0b prefix)
pub uninterp spec fn text_is_number(s: Seq<char>, radix: int) -> bool;
'''
SPEC = '''pub assume_specification [{T}::from_str_radix] (s: &str, radix: u32) -> (r: Result<{T}, core::num::ParseIntError>)
    ensures text_is_number(s@, radix as int) ==> (r is Ok <==> {LO} <= text_value(s@, radix as int) <= {HI}),
            text_is_number(s@, radix as int) && r is Ok ==> r->Ok_0 as int == text_value(s@, radix as int);
'''
RANGE = {"u8": ("0", "0xFF"), "u16": ("0", "0xFFFF"), "i8": ("-0x80", "0x7F"), "i16": ("-0x8000", "0x7FFF"),
         "u32": ("0", "0xFFFF_FFFF"), "usize": ("0", "usize::MAX")}
TOK = {"dec": ('r#"[0-9]+"#', 10, 0), "hex": ('r#"0(x|X)[0-9A-Fa-f]+"#', 16, 2), "bin": ('r#"0(b|B)[0-1]+"#', 2, 2), "neg": ('r#"-[0-9]+"#', 10, 0)}
G = {"pp": "src/lib/preprocessor/preprocessor.rs", "it": "src/lib/interpreter/interpreter.rs", "ld": "src/lib/data_parser/data_parser.rs",
     "pr": "src/driver/print.rs"}
PRODS = [  # grammar, nonterminal, token kind, type, address (reduced mod 1 MB)
    ("pp", "u_word_num", "dec", "u16", False), ("pp", "u_word_num", "hex", "u16", False), ("pp", "u_word_num", "bin", "u16", False),
    ("pp", "u_byte_num", "dec", "u8", False), ("pp", "u_byte_num", "hex", "u8", False), ("pp", "u_byte_num", "bin", "u8", False),
    ("pp", "s_word_num", "neg", "i16", False), ("pp", "s_byte_num", "neg", "i8", False),
    ("pp", "raw_addr", "dec", "u32", True), ("pp", "raw_addr", "hex", "u32", True), ("pp", "raw_addr", "bin", "u32", True),
    ("it", "u_word_num", "dec", "u16", False), ("it", "u_byte_num", "dec", "u8", False), ("it", "s_word_num", "neg", "i16", False),
    ("it", "s_byte_num", "neg", "i8", False), ("it", "raw_addr", "dec", "u32", True),
    ("ld", "u_word_num", "dec", "u16", False), ("ld", "u_byte_num", "dec", "u8", False), ("ld", "s_word_num", "neg", "i16", False),
    ("ld", "s_byte_num", "neg", "i8", False),
    ("pr", "raw_addr", "dec", "usize", True),
]
out = HEAD
for t in ("u8", "u16", "i8", "i16", "u32", "usize"):
    out += SPEC.format(T=t, LO=RANGE[t][0], HI=RANGE[t][1])
out += "\n"
for g, nt, tk, ty, addr in PRODS:
    tok, radix, plen = TOK[tk]
    lo, hi = RANGE[ty]
    digits = f"n@.subrange({plen}, n@.len() as int)" if plen else "n@"
    val = f"text_value({digits}, {radix})"
    res = f"{val} % 0x100000" if addr else val
    name = f"nm_{g}_{nt}_{tk}"
    tag = {"pp": "C14,C11", "it": "C01,C05", "ld": "C12", "pr": "C17"}[g]
    out += f"//@action {G[g]} {nt} = {tok} as {name}\n//@contract\n//@strslice\n//@dropunused\n"
    out += f"    requires n.is_ascii(), n@.len() >= {plen + 1}, text_is_number({digits}, {radix}),   // the token's regular expression\n"
    out += f"    ensures\n"
    out += f"        r is Ok <==> {lo} <= {val} <= {hi},      //# {tag} number.accepted_iff_in_the_range_of_its_operand_type\n"
    out += f"        r is Ok ==> r->Ok_0 as int == {res},       //# {tag} number.accepted_with_its_value\n"
    out += "//@end\n\n"
# the signed nonterminals take over an unsigned literal with its bit pattern; an OFFSET is an address as it stands
for nt, src, ty, uty in (("s_byte_num", "u_byte_num", "i8", "u8"), ("s_word_num", "u_word_num", "i16", "u16")):
    out += (f"//@action {G['pp']} {nt} = {src} as nm_pp_{nt}_cast\n//@contract\n//@dropunused\n"
            f"    ensures r as {uty} == n, //# C14,C11 number.unsigned_literal_keeps_its_bit_pattern\n//@before n as {ty} :: proof {{ assert((n as {ty}) as {uty} == n) by (bit_vector); }}\n//@end\n\n")
out += (f"//@action {G['ld']} s_byte_num = u_byte_num as nm_ld_s_byte_num_cast\n//@contract\n//@dropunused\n"
        f"    ensures r as u8 == n, //# C12 number.unsigned_literal_keeps_its_bit_pattern\n//@before n as i8 :: proof {{ assert((n as i8) as u8 == n) by (bit_vector); }}\n//@end\n\n")
out += (f"//@action {G['pp']} raw_addr = offset as nm_pp_raw_addr_offset\n//@contract\n//@dropunused\n"
        f"    ensures r == o, //# C14,C11 number.offset_is_the_address_as_it_stands\n//@end\n\n")
out += "} // verus!\nfn main() {}\n"
open(os.path.join(os.path.dirname(__file__), "..", "contracts", "verus", "numbers.rs"), "w").write(out)
print(len(PRODS), "productions")
