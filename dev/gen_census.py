#!/usr/bin/env python3
"""regenerate contracts/expected_units.json = {unit: [properties it serves]} from /repo's working tree"""
import sys, json
sys.path.insert(0, '/verif/lib')
import scratch, kani_engine, check_main
root = scratch.make_copy('census')
try:
    kb = kani_engine.KaniBuild(root + '/repo', check_main.load_findings())
    kb.build()
    out = {}
    for n, u in sorted(kb.units.items()):
        if u.twin_of is not None:
            continue
        out[n] = sorted(p for p in check_main.KANI_PROPS if kani_engine.unit_serves(u, p))
    json.dump(out, open('/verif/contracts/expected_units.json', 'w'), indent=0, sort_keys=True)
    print(len(out), 'units')
finally:
    scratch.remove_copy(root)
