#!/bin/bash
# run every claimed check on /repo's working tree, one after the other; summary lines in /var/tmp/run_all.log
cd /verif
: > /var/tmp/run_all.log
for p in ${@:-C01 C02 C03 C04 C05 C06 C07 C08 C09 C12 C14 C16 C17 C18 C19 C20}; do
  ./check $p > /var/tmp/run_all_$p.out 2>&1; echo "$p exit=$? $(tail -1 /var/tmp/run_all_$p.out | cut -c1-160)" >> /var/tmp/run_all.log
done
echo DONE >> /var/tmp/run_all.log
