#!/usr/bin/env python3
"""apply text mutations to a scratch copy of /repo and run one Verus unit on each; prints which obligations fail"""
import sys, os, json
sys.path.insert(0, '/verif/lib')
import scratch, verus_engine
from concurrent.futures import ThreadPoolExecutor
unit = sys.argv[1]
muts = json.load(open(sys.argv[2]))   # [{"name":..,"file":..,"old":..,"new":..}]
def one(m):
    root = scratch.make_copy('mv_' + m['name'])
    try:
        p = os.path.join(root, 'repo', m['file'])
        s = open(p).read()
        if m['old'] not in s:
            return m['name'], 'ANCHOR NOT FOUND'
        open(p, 'w').write(s.replace(m['old'], m['new'], 1))
        if m['file'].endswith('.lalrpop'):
            import subprocess
            g = subprocess.run([scratch.LALRPOP_GEN, 'src'], cwd=root + '/repo', env=dict(scratch.ENV, LALRPOP_GEN_FORCE='1'), capture_output=True, text=True)
            if g.returncode != 0:
                return m['name'], 'LALRPOP FAILED ' + g.stdout[-300:]
        try:
            r = verus_engine.run_unit(unit, root + '/repo', root)
        except Exception as e:
            return m['name'], 'UNDECIDED ' + str(e)[:400]
        bad = []
        for f in r['fns']:
            for c in f['clauses']:
                if c['status'] != 'discharged': bad.append(f"{f['name']}/{c.get('name') or 'ensures#%d' % c['k']}[{','.join(c.get('props') or [])}]={c['status']}")
            for t in f.get('tagged', []):
                if t['status'] != 'discharged': bad.append(f"{f['name']}/{t['name']}[{','.join(t['props'])}]={t['status']}")
            if f['total'] != 'discharged': bad.append(f"{f['name']}/total={f['total']}")
            if f.get('invariants','discharged') != 'discharged': bad.append(f"{f['name']}/loop-invariants={f['invariants']}")
        return m['name'], bad or 'NOT CAUGHT'
    finally:
        scratch.remove_copy(root)
with ThreadPoolExecutor(max_workers=6) as ex:
    for name, res in ex.map(one, muts):
        print(name, '->', res, flush=True)
