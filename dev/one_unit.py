import sys, os, time, subprocess
sys.path.insert(0,'/verif/lib')
import scratch, kani_engine, check_main, cbmc_driver
scratch.SCRATCH_ROOT='/var/tmp/verif8086_t'
names=sys.argv[2:]; to=int(sys.argv[1])
root=scratch.make_copy('t')
try:
    kb=kani_engine.KaniBuild(root+'/repo', check_main.load_findings()); kb.build()
    want={kb.units[n].fq:{'M':'z3','S':'cadical-uf'}.get(kb.units[n].klass,'cadical') for n in names}
    meta=cbmc_driver.codegen(kb.dst, list(want), root+'/log')
    os.makedirs(root+'/goto', exist_ok=True)
    for fq in want:
        t=time.time()
        r=cbmc_driver.run_one(kb.dst, meta[fq], root+'/goto', want[fq], to)
        print(fq.split('::')[-1], r.status, round(time.time()-t,1), r.checks_total, r.failed_checks[:3], flush=True)
        if r.status=='error': print(r.raw[-1500:])
finally:
    scratch.remove_copy(root)
