import sys, os, json
sys.path.insert(0, '/verif/lib')
import scratch, verus_engine
root = scratch.make_copy('devv')
try:
    r = verus_engine.run_unit(sys.argv[1], root + '/repo', root)
    print('verified', r['verified'], 'errors', r['errors_n'], 'wall', round(r['wall'],1), 'OUT OF REACH:', r.get('out_of_reach'))
    for f in r['fns']:
        bad = [c for c in f['clauses'] if c['status'] != 'discharged']
        print(' ', f['name'], f['kind'], len(f['clauses']), 'clauses', 'total=' + f['total'], ['#%d %s' % (c['k'], c['status']) for c in bad])
        for m in f['messages'][:3]: print('     ', m[:600].replace('\n', '\n      '))
except Exception as e:
    print('EXC', str(e)[:6000])
finally:
    scratch.remove_copy(root)
