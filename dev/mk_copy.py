import sys, os, json
sys.path.insert(0, '/verif/lib')
import scratch, kani_engine, check_main
root = scratch.make_copy('devk')
kb = kani_engine.KaniBuild(root + '/repo', check_main.load_findings())
kb.build()
print(root + '/repo')
