#!/usr/bin/env python3
"""apply each seeded change to /repo, run the owning property's quick check, undo; report which were caught"""
import json, os, subprocess, sys, time
src = sys.argv[1] if len(sys.argv) > 1 else '/verif/seeded'
only = sys.argv[2:] 
res = {}
for d in sorted(os.listdir(src)):
    if only and d not in only: continue
    p = os.path.join(src, d)
    patch = os.path.join(p, 'patch.diff')
    if not os.path.exists(patch): continue
    meta = json.load(open(os.path.join(p, 'meta.json')))
    pid = meta['property']
    st = subprocess.run(['git', '-C', '/repo', 'status', '--porcelain', '--untracked-files=no'], capture_output=True, text=True).stdout
    assert all('cmdline.gif' in l for l in st.strip().split('\n') if l.strip()), 'repo not clean: ' + st
    a = subprocess.run(['git', '-C', '/repo', 'apply', patch], capture_output=True, text=True)
    if a.returncode != 0:
        res[d] = 'patch does not apply: ' + a.stderr[:200]; print(d, res[d]); continue
    t = time.time()
    try:
        r = subprocess.run(['/verif/check', pid], capture_output=True, text=True, cwd='/verif', timeout=3000)
        viol = [l for l in r.stdout.split('\n') if l.startswith('VIOLATION')]
        und = [l for l in r.stdout.split('\n') if l.startswith('UNDECIDED')]
        res[d] = {'property': pid, 'exit': r.returncode, 'violations': len(viol), 'first': viol[:2], 'undecided': und[:2], 'wall': round(time.time() - t)}
    finally:
        subprocess.run(['git', '-C', '/repo', 'checkout', '--', 'src', 'Cargo.toml'], capture_output=True)
    print(d, json.dumps(res[d])[:600], flush=True)
json.dump(res, open('/var/tmp/seeded_results.json', 'w'), indent=1)
