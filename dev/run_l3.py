import sys, os, json, time, re
sys.path.insert(0, '/verif/lib')
import scratch, kani_l1, kani_l3, kani_run, prodtable
root = scratch.make_copy('dev3')
dst = root + '/repo'
print(dst)
an = scratch.Annotator(dst)
an.append('src/lib/lib.rs', '\n#[cfg(kani)]\n#[path = "/verif/spec/i8086_spec.rs"]\npub mod i8086_spec;\n#[cfg(kani)]\n#[path = "/verif/contracts/kani/verif_support.rs"]\npub mod verif_support;\n')
text, acts, prods = prodtable.load(dst + '/src/lib/interpreter/interpreter.rs')
g = kani_l3.Gen(prods, acts)
hs = g.run()
print(len(hs), 'harnesses; skipped:', g.skipped)
an.append('src/lib/interpreter/interpreter.rs', kani_l3.module_text(hs))
an.commit()
only = sys.argv[1:]
sel = [h for h in hs if not only or any(o in h.name for o in only)]
P = [h.name for h in sel if h.klass == 'P']; M = [h.name for h in sel if h.klass == 'M']
print(len(P), 'P', len(M), 'M')
t = time.time()
res = {}
if P: res.update(kani_run.run_batch(dst, P, int(os.environ.get('J','14')), False, 3000, root + '/kani.log', harness_timeout=int(os.environ.get('HT','300'))))
print('P wall', time.time() - t); t = time.time()
if M and not os.environ.get('NOM'): res.update(kani_run.run_batch(dst, M, int(os.environ.get('JM','8')), True, 6000, root + '/kani.log', harness_timeout=int(os.environ.get('HT','600'))))
print('M wall', time.time() - t)
for h, r in sorted(res.items()):
    print(h, r.status, round(r.time_s,1), r.checks_total, '' if r.cover_ok else 'COVER-FAIL')
    for fc in r.failed_checks:
        print('    FAIL', fc[:160])
