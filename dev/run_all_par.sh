#!/bin/bash
# run every claimed check on /repo's working tree from /verif itself, three at a time; one summary line per check in /var/tmp/run_all.log
cd /verif
: > /var/tmp/run_all.log
run() { p=$1; ./check $p > /var/tmp/run_all_$p.out 2>&1; echo "$p exit=$? $(tail -1 /var/tmp/run_all_$p.out | cut -c1-170)" >> /var/tmp/run_all.log; }
export -f run
printf '%s\n' ${@:-C09 C05 C07 C04 C01 C02 C03 C06 C08 C10 C11 C12 C13 C14 C15 C16 C17 C18 C19 C20} | VERIF_JOBS=5 xargs -P 3 -I{} bash -c 'run {}'
echo DONE >> /var/tmp/run_all.log
