#!/usr/bin/env python3
"""expand one Verus unit against /repo's working tree without verifying it; prints the path of the generated file"""
import sys, os, re
sys.path.insert(0, '/verif/lib')
import scratch, verus_engine, verus_extract
unit = sys.argv[1]
root = scratch.make_copy('gen')
try:
    ex = verus_extract.Extractor(root + '/repo')
    pre = verus_extract.expand(open(os.path.join(verus_engine.CDIR, "prelude.rs")).read(), ex)
    tpl = open(os.path.join(verus_engine.CDIR, verus_engine.UNITS[unit]["tpl"])).read()
    body = verus_extract.expand(tpl, ex)
    bm = re.search(r"^//@broadcast (.*)$", body, re.M)
    pre = pre.replace("/*@broadcast_extra*/", (", " + bm.group(1).strip()) if bm else "")
    text = pre + "\n" + body
    text = re.sub(r'@LIT\(("(?:[^"\\]|\\.)*"(?:\\n)?)\)', lambda m: str(ex.literals.index(m.group(1))), text)
    out = sys.argv[2] if len(sys.argv) > 2 else f'/var/tmp/vp/{unit}.rs'
    open(out, 'w').write(text)
    print(out)
finally:
    scratch.remove_copy(root)
