// verif_support.rs -- compiled into the scratch copy of the crate under cfg(kani) only.
// Harness devices shared by every Kani contract / production harness.
#![allow(dead_code)]
#![allow(static_mut_refs)]

use crate::arch::i8086;
use crate::util::data_util::{ByteReg, WordReg};
use crate::util::interpreter_util::{Context, DivByZero};
use crate::vm::{MB, VM};

/// Named clause: the name ends up in the CBMC property description, which is how
/// the runner maps a failed check back to an obligation.
#[inline(always)]
pub fn clause(_name: &'static str, holds: bool) -> bool {
    holds
}

/// Snapshot of the 14 architectural registers (i8086 derives neither Clone nor Eq).
#[derive(Clone, Copy, PartialEq, Eq)]
pub struct Regs {
    pub flag: u16,
    pub ax: u16,
    pub bx: u16,
    pub cx: u16,
    pub dx: u16,
    pub sp: u16,
    pub bp: u16,
    pub si: u16,
    pub di: u16,
    pub ip: u16,
    pub cs: u16,
    pub ds: u16,
    pub ss: u16,
    pub es: u16,
}

pub fn regs(vm: &VM) -> Regs {
    let a = &vm.arch;
    Regs {
        flag: a.flag,
        ax: a.ax,
        bx: a.bx,
        cx: a.cx,
        dx: a.dx,
        sp: a.sp,
        bp: a.bp,
        si: a.si,
        di: a.di,
        ip: a.ip,
        cs: a.cs,
        ds: a.ds,
        ss: a.ss,
        es: a.es,
    }
}

pub fn any_arch() -> i8086 {
    i8086 {
        flag: kani::any(),
        ax: kani::any(),
        bx: kani::any(),
        cx: kani::any(),
        dx: kani::any(),
        sp: kani::any(),
        bp: kani::any(),
        si: kani::any(),
        di: kani::any(),
        ip: kani::any(),
        cs: kani::any(),
        ds: kani::any(),
        ss: kani::any(),
        es: kani::any(),
    }
}

/// Memory-fenced VM: all 14 registers arbitrary, `mem` backed by a ONE byte allocation.
/// Any read or write of vm.mem[..] is a CBMC pointer-check failure, so a harness that
/// verifies over a fenced VM has also proved "no memory byte is read or written".
/// Must be released with `forget_vm`.
pub fn fenced_vm() -> VM {
    unsafe {
        let p = std::alloc::alloc(std::alloc::Layout::new::<u8>()) as *mut [u8; MB as usize];
        VM {
            arch: any_arch(),
            mem: Box::from_raw(p),
        }
    }
}

/// VM over a fully nondeterministic 1 MB heap (uninitialised allocation = arbitrary bytes
/// for CBMC), all registers arbitrary.
pub fn heap_vm() -> VM {
    unsafe {
        let p = std::alloc::alloc(std::alloc::Layout::new::<[u8; MB as usize]>()) as *mut [u8; MB as usize];
        VM {
            arch: any_arch(),
            mem: Box::from_raw(p),
        }
    }
}

pub fn fenced_vm_with(arch: i8086) -> VM {
    unsafe {
        let p = std::alloc::alloc(std::alloc::Layout::new::<u8>()) as *mut [u8; MB as usize];
        VM {
            arch,
            mem: Box::from_raw(p),
        }
    }
}
pub fn heap_vm_with(arch: i8086) -> VM {
    unsafe {
        let p = std::alloc::alloc(std::alloc::Layout::new::<[u8; MB as usize]>()) as *mut [u8; MB as usize];
        VM {
            arch,
            mem: Box::from_raw(p),
        }
    }
}

pub fn forget_vm(vm: VM) {
    std::mem::forget(vm);
}

/// A `&mut Context` over an uninitialised (hence arbitrary) allocation of the right size:
/// productions that do not use `context` get this, because constructing a real Context
/// pulls HashMap/RandomState, which Kani cannot execute.  Productions that DO use the
/// context (call, ret, jumps_loops, labels) are not given to Kani at all (Verus units).
pub fn forged_context<'a>() -> &'a mut Context {
    unsafe {
        let p = std::alloc::alloc(std::alloc::Layout::new::<Context>()) as *mut Context;
        &mut *p
    }
}

/// same device for any other grammar parameter a production does not use
pub fn forged<'a, T>() -> &'a mut T {
    unsafe {
        let p = std::alloc::alloc(std::alloc::Layout::new::<T>()) as *mut T;
        &mut *p
    }
}

pub fn any_byte_reg() -> ByteReg {
    let k: u8 = kani::any();
    kani::assume(k < 8);
    byte_reg_of(k)
}
pub fn byte_reg_of(k: u8) -> ByteReg {
    match k {
        0 => ByteReg::AL,
        1 => ByteReg::AH,
        2 => ByteReg::BL,
        3 => ByteReg::BH,
        4 => ByteReg::CL,
        5 => ByteReg::CH,
        6 => ByteReg::DL,
        _ => ByteReg::DH,
    }
}
pub fn byte_reg_ix(r: ByteReg) -> u8 {
    match r {
        ByteReg::AL => 0,
        ByteReg::AH => 1,
        ByteReg::BL => 2,
        ByteReg::BH => 3,
        ByteReg::CL => 4,
        ByteReg::CH => 5,
        ByteReg::DL => 6,
        ByteReg::DH => 7,
    }
}
pub fn any_word_reg() -> WordReg {
    let k: u8 = kani::any();
    kani::assume(k < 12);
    word_reg_of(k)
}
pub fn word_reg_of(k: u8) -> WordReg {
    match k {
        0 => WordReg::AX,
        1 => WordReg::BX,
        2 => WordReg::CX,
        3 => WordReg::DX,
        4 => WordReg::SS,
        5 => WordReg::CS,
        6 => WordReg::DS,
        7 => WordReg::ES,
        8 => WordReg::SP,
        9 => WordReg::BP,
        10 => WordReg::SI,
        _ => WordReg::DI,
    }
}
pub fn word_reg_ix(r: WordReg) -> u8 {
    match r {
        WordReg::AX => 0,
        WordReg::BX => 1,
        WordReg::CX => 2,
        WordReg::DX => 3,
        WordReg::SS => 4,
        WordReg::CS => 5,
        WordReg::DS => 6,
        WordReg::ES => 7,
        WordReg::SP => 8,
        WordReg::BP => 9,
        WordReg::SI => 10,
        WordReg::DI => 11,
    }
}

// ---- spec-level register file access (independent of data_util.rs) ----------

pub fn spec_get8(r: &Regs, k: u8) -> u8 {
    match k {
        0 => r.ax as u8,
        1 => (r.ax >> 8) as u8,
        2 => r.bx as u8,
        3 => (r.bx >> 8) as u8,
        4 => r.cx as u8,
        5 => (r.cx >> 8) as u8,
        6 => r.dx as u8,
        _ => (r.dx >> 8) as u8,
    }
}
pub fn spec_set8(r: &mut Regs, k: u8, v: u8) {
    let (lo, hi) = (v as u16, (v as u16) << 8);
    match k {
        0 => r.ax = (r.ax & 0xFF00) | lo,
        1 => r.ax = (r.ax & 0x00FF) | hi,
        2 => r.bx = (r.bx & 0xFF00) | lo,
        3 => r.bx = (r.bx & 0x00FF) | hi,
        4 => r.cx = (r.cx & 0xFF00) | lo,
        5 => r.cx = (r.cx & 0x00FF) | hi,
        6 => r.dx = (r.dx & 0xFF00) | lo,
        _ => r.dx = (r.dx & 0x00FF) | hi,
    }
}
pub fn spec_get16(r: &Regs, k: u8) -> u16 {
    match k {
        0 => r.ax,
        1 => r.bx,
        2 => r.cx,
        3 => r.dx,
        4 => r.ss,
        5 => r.cs,
        6 => r.ds,
        7 => r.es,
        8 => r.sp,
        9 => r.bp,
        10 => r.si,
        _ => r.di,
    }
}
pub fn spec_set16(r: &mut Regs, k: u8, v: u16) {
    match k {
        0 => r.ax = v,
        1 => r.bx = v,
        2 => r.cx = v,
        3 => r.dx = v,
        4 => r.ss = v,
        5 => r.cs = v,
        6 => r.ds = v,
        7 => r.es = v,
        8 => r.sp = v,
        9 => r.bp = v,
        10 => r.si = v,
        _ => r.di = v,
    }
}

// ---- probes standing for the L1 contracts ------------------------------------
// A production that receives its operation as a function pointer is verified
// against ANY operation that satisfies the L1 frame contract:
//   binary class : may change FLAGS, returns an arbitrary value
//   unary  class : may change FLAGS, AX, DX and *val, returns Ok or Err arbitrarily
// The probe records how often and with which arguments it was called.

pub static mut P_CALLS: u32 = 0;
pub static mut P_A: u16 = 0;
pub static mut P_B: u16 = 0;
pub static mut P_RET: u16 = 0;
pub static mut P_FLAG: u16 = 0;
pub static mut P_AX: u16 = 0;
pub static mut P_DX: u16 = 0;
pub static mut P_VAL: u16 = 0;
pub static mut P_ERR: bool = false;
/// register file as the probe saw it on entry
pub static mut P_SEEN: Option<Regs> = None;

pub fn probe_arm() {
    unsafe {
        P_CALLS = 0;
        P_RET = kani::any();
        P_FLAG = kani::any();
        P_AX = kani::any();
        P_DX = kani::any();
        P_VAL = kani::any();
        P_ERR = kani::any();
        P_SEEN = None;
    }
}

pub fn probe_bb(vm: &mut VM, a: u8, b: u8) -> u8 {
    unsafe {
        P_CALLS += 1;
        P_A = a as u16;
        P_B = b as u16;
        P_SEEN = Some(regs(vm));
        vm.arch.flag = P_FLAG;
        P_RET as u8
    }
}
pub fn probe_ww(vm: &mut VM, a: u16, b: u16) -> u16 {
    unsafe {
        P_CALLS += 1;
        P_A = a;
        P_B = b;
        P_SEEN = Some(regs(vm));
        vm.arch.flag = P_FLAG;
        P_RET
    }
}
pub fn probe_ub(vm: &mut VM, val: &mut u8) -> Result<(), DivByZero> {
    unsafe {
        P_CALLS += 1;
        P_A = *val as u16;
        P_SEEN = Some(regs(vm));
        if P_ERR {
            return Err(DivByZero);
        }
        vm.arch.flag = P_FLAG;
        vm.arch.ax = P_AX;
        vm.arch.dx = P_DX;
        *val = P_VAL as u8;
        Ok(())
    }
}
pub fn probe_uw(vm: &mut VM, val: &mut u16) -> Result<(), DivByZero> {
    unsafe {
        P_CALLS += 1;
        P_A = *val;
        P_SEEN = Some(regs(vm));
        if P_ERR {
            return Err(DivByZero);
        }
        vm.arch.flag = P_FLAG;
        vm.arch.ax = P_AX;
        vm.arch.dx = P_DX;
        *val = P_VAL;
        Ok(())
    }
}

// ---- flags enum helpers ---------------------------------------------------------
use crate::util::flag_util::Flags;
pub fn any_flag() -> Flags {
    let k: u8 = kani::any();
    kani::assume(k < 9);
    flag_of(k)
}
pub fn flag_of(k: u8) -> Flags {
    match k {
        0 => Flags::OVERFLOW,
        1 => Flags::DIRECTION,
        2 => Flags::INTERRUPT,
        3 => Flags::TRAP,
        4 => Flags::SIGN,
        5 => Flags::ZERO,
        6 => Flags::AUX_CARRY,
        7 => Flags::PARITY,
        _ => Flags::CARRY,
    }
}
/// Architectural bit position of each flag (Intel manual, FLAGS register layout).
pub fn flag_bit(f: &Flags) -> u16 {
    match f {
        Flags::OVERFLOW => 1 << 11,
        Flags::DIRECTION => 1 << 10,
        Flags::INTERRUPT => 1 << 9,
        Flags::TRAP => 1 << 8,
        Flags::SIGN => 1 << 7,
        Flags::ZERO => 1 << 6,
        Flags::AUX_CARRY => 1 << 4,
        Flags::PARITY => 1 << 2,
        Flags::CARRY => 1 << 0,
    }
}

// ---- shift/rotate postcondition: reference evaluated once, five named sub-clauses ------
use crate::i8086_spec as spec;
pub fn post_shift(k: spec::Sh, w: u32, val: u32, num: u32, old_flag: u16, res: u32, new_flag: u16) -> bool {
    let (er, ef, mask) = spec::sh_flags(k, w, val, old_flag & 1 != 0, num, old_flag);
    assert!(res == er, "shift.result");
    let d = (new_flag ^ ef) & mask;
    assert!(d & spec::CF == 0, "shift.CF");
    assert!(d & spec::OF == 0, "shift.OF_count1");
    assert!(d & (spec::SF | spec::ZF | spec::PF) == 0, "shift.SF_ZF_PF");
    assert!(d & !(spec::CF | spec::OF | spec::SF | spec::ZF | spec::PF) == 0, "shift.AF_and_control_bits");
    true
}

// ---- whole register file comparison, one named clause per register ---------------------
// `exempt` carries known-finding regions (bit k set = clause of register k is not asserted for
// this input); it is 0 unless /verif/known_findings.jsonl lists a finding for that clause.
pub fn check_regs(vm: &VM, exp: &Regs, exempt: u16) {
    let a = &vm.arch;
    assert!(exempt & (1 << 0) != 0 || a.flag == exp.flag, "reg.flag");
    assert!(exempt & (1 << 1) != 0 || a.ax == exp.ax, "reg.ax");
    assert!(exempt & (1 << 2) != 0 || a.bx == exp.bx, "reg.bx");
    assert!(exempt & (1 << 3) != 0 || a.cx == exp.cx, "reg.cx");
    assert!(exempt & (1 << 4) != 0 || a.dx == exp.dx, "reg.dx");
    assert!(exempt & (1 << 5) != 0 || a.sp == exp.sp, "reg.sp");
    assert!(exempt & (1 << 6) != 0 || a.bp == exp.bp, "reg.bp");
    assert!(exempt & (1 << 7) != 0 || a.si == exp.si, "reg.si");
    assert!(exempt & (1 << 8) != 0 || a.di == exp.di, "reg.di");
    assert!(exempt & (1 << 9) != 0 || a.ip == exp.ip, "reg.ip");
    assert!(exempt & (1 << 10) != 0 || a.cs == exp.cs, "reg.cs");
    assert!(exempt & (1 << 11) != 0 || a.ds == exp.ds, "reg.ds");
    assert!(exempt & (1 << 12) != 0 || a.ss == exp.ss, "reg.ss");
    assert!(exempt & (1 << 13) != 0 || a.es == exp.es, "reg.es");
}

// ---- known-finding twin mode --------------------------------------------------------------
// A clause with a listed finding is checked as `(!kf_mode() && REGION) || CLAUSE`.  The twin
// harness of the finding switches kf_mode on and fixes the witness input: it must FAIL,
// which is how every run re-confirms that the listed finding still exists.
pub static mut KF_MODE: bool = false;
pub fn kf_mode() -> bool {
    unsafe { KF_MODE }
}
pub fn set_kf_mode() {
    unsafe { KF_MODE = true }
}

// ---- body probes: stand-ins (kani::stub) for the ten string functions / eight AX adjusts ----
// Each identifies itself, counts calls, records the register file it saw and leaves arbitrary
// SI, DI, AX and FLAGS (a superset of what any of the replaced functions may change; CX is
// never changed by a string body, which is what the REP step contract relies on).
pub static mut B_CALLS: u32 = 0;
pub static mut B_ID: u8 = 255;
pub static mut B_SI: u16 = 0;
pub static mut B_DI: u16 = 0;
pub static mut B_AX: u16 = 0;
pub static mut B_FLAG: u16 = 0;
pub static mut B_SEEN: Option<Regs> = None;

pub fn body_arm() {
    unsafe {
        B_CALLS = 0;
        B_ID = 255;
        B_SI = kani::any();
        B_DI = kani::any();
        B_AX = kani::any();
        B_FLAG = kani::any();
        B_SEEN = None;
    }
}
fn body_probe(vm: &mut VM, id: u8) {
    unsafe {
        B_CALLS += 1;
        B_ID = id;
        B_SEEN = Some(regs(vm));
        vm.arch.si = B_SI;
        vm.arch.di = B_DI;
        vm.arch.ax = B_AX;
        vm.arch.flag = B_FLAG;
    }
}
pub fn body_probe_0(vm: &mut VM) { body_probe(vm, 0) }
pub fn body_probe_1(vm: &mut VM) { body_probe(vm, 1) }
pub fn body_probe_2(vm: &mut VM) { body_probe(vm, 2) }
pub fn body_probe_3(vm: &mut VM) { body_probe(vm, 3) }
pub fn body_probe_4(vm: &mut VM) { body_probe(vm, 4) }
pub fn body_probe_5(vm: &mut VM) { body_probe(vm, 5) }
pub fn body_probe_6(vm: &mut VM) { body_probe(vm, 6) }
pub fn body_probe_7(vm: &mut VM) { body_probe(vm, 7) }
pub fn body_probe_8(vm: &mut VM) { body_probe(vm, 8) }
pub fn body_probe_9(vm: &mut VM) { body_probe(vm, 9) }

// stand-in for core::str::slice_error_fail (the panic path of `&s[a..b]`): still a failure, without the Display formatting
pub fn slice_fail(_s: &str, _begin: usize, _end: usize) -> ! {
    panic!("str slice index is not a char boundary or out of range")
}
