// Unit `assembler` (C08, C14, C16, C12): bookkeeping productions of the assembler
// (src/lib/preprocessor/preprocessor.rs, generated), verbatim.
use std::collections::{BTreeSet, HashMap, HashSet};

macro_rules! error {
    (  $s:expr,$e:expr,$err:expr ) => {{
        Err(ParseError::UnrecognizedToken {
            token: ($s, Token(0, ""), $e),
            expected: vec![$err],
        })
    }};
}

verus! {

pub struct Token(pub usize, pub &'static str);
pub enum ParseError {
    UnrecognizedToken { token: (usize, Token, usize), expected: Vec<String> },
    Other,
}

// the grammar refers to its helper module as `util`
pub mod util {
//@item src/lib/util/preprocessor_util.rs const DATA_OVERFLOW
}
//@item src/lib/util/preprocessor_util.rs enum LabelType
//@item src/lib/util/preprocessor_util.rs struct Label
impl Label {
//@fn src/lib/util/preprocessor_util.rs new
//@contract
        ensures r.r#type == t, r.source_position == pos, r.map == map,
//@end
//@fn src/lib/util/preprocessor_util.rs get_type
//@contract
        ensures r == self.r#type,
//@end
}
//@item src/lib/util/preprocessor_util.rs struct SourceMapper
impl SourceMapper {
    pub closed spec fn v_lock(&self) -> u16 { self.lock }
    pub closed spec fn v_last(&self) -> usize { self.source_last }
    pub closed spec fn v_next(&self) -> usize { self.output_next }
    pub closed spec fn v_map(&self) -> Map<usize, usize> { self.source_map@ }
//@fn src/lib/util/preprocessor_util.rs lock_source
//@contract
        requires old(self).v_lock() < u16::MAX,
        ensures final(self).v_lock() == old(self).v_lock() + 1, final(self).v_last() == old(self).v_last(),
            final(self).v_next() == old(self).v_next(), final(self).v_map() == old(self).v_map(),
//@end
//@fn src/lib/util/preprocessor_util.rs unlock_source
//@contract
        requires old(self).v_lock() > 0,
        ensures final(self).v_lock() == old(self).v_lock() - 1, final(self).v_last() == old(self).v_last(),
            final(self).v_next() == old(self).v_next(), final(self).v_map() == old(self).v_map(),
//@end
//@fn src/lib/util/preprocessor_util.rs set_source
//@contract
        ensures final(self).v_last() == (if old(self).v_lock() == 0 { source_char } else { old(self).v_last() }),
            final(self).v_lock() == old(self).v_lock(), final(self).v_next() == old(self).v_next(),
            final(self).v_map() == old(self).v_map(),
//@end
//@fn src/lib/util/preprocessor_util.rs add_entry
//@contract
        requires old(self).v_next() < usize::MAX,
        ensures
            final(self).v_map() == old(self).v_map().insert(old(self).v_next(), if old(self).v_lock() != 0 { old(self).v_last() } else { source_char }),
            final(self).v_next() == old(self).v_next() + 1,
            final(self).v_last() == (if old(self).v_lock() != 0 { old(self).v_last() } else { source_char }),
            final(self).v_lock() == old(self).v_lock(),
//@end
}
//@item src/lib/util/preprocessor_util.rs struct Context
//@item src/lib/util/preprocessor_util.rs struct Output
impl Context {
//@fn src/lib/util/preprocessor_util.rs advance_data_counter
//@contract
        ensures r == (old(self).data_counter + size <= 65535),
            final(self).data_counter == (if r { (old(self).data_counter + size) as u16 } else { old(self).data_counter }),
            final(self).label_map@ == old(self).label_map@, final(self).fn_map@ == old(self).fn_map@,
            final(self).mapper == old(self).mapper, final(self).undefined_labels@ == old(self).undefined_labels@,
//@end
}

// ------------------------------------------------------------------ every emitting production
/// What the driver assumes of the assembler's output (stub `preprocess` of unit `driver`).  Every production under contract
/// preserves it (clause `asm.output_invariant_preserved`); it holds trivially for the empty context and output.
pub open spec fn asm_inv(c: &Context, o: &Output) -> bool {
    &&& o.code@.len() == c.mapper.v_next()
    &&& forall|k: usize| k < c.mapper.v_next() ==> #[trigger] c.mapper.v_map().contains_key(k)
    &&& forall|s: String| #[trigger] c.label_map@.contains_key(s) && c.label_map@[s].r#type is CODE ==> c.label_map@[s].map <= o.code@.len()
    &&& forall|s: String| #[trigger] c.fn_map@.contains_key(s) ==> c.fn_map@[s] <= o.code@.len()
}

//@emitters

// ------------------------------------------------------------------ procedures, calls, returns
//@action src/lib/preprocessor/preprocessor.rs proc_def = quote_proc, name_string as as_proc_def
//@contract
    requires vstd::std_specs::hash::obeys_key_model::<String>(),
    ensures
        // a procedure name denotes the index of the next instruction to be emitted; a second definition is refused
        !old(context).fn_map@.contains_key(n) ==> r.is_ok() && final(context).fn_map@ == old(context).fn_map@.insert(n, old(out).code@.len() as usize),
        old(context).fn_map@.contains_key(n) ==> r.is_err() && final(context).fn_map@ == old(context).fn_map@,
        final(out).code@ == old(out).code@, final(out).data@ == old(out).data@, final(context).label_map@ == old(context).label_map@,
        asm_inv(old(context), old(out)) ==> asm_inv(final(context), final(out)), //# C08,C16 asm.output_invariant_preserved
//@end

// a label denotes the index of the next instruction to be emitted; defining it twice is refused and changes nothing
//@action src/lib/preprocessor/preprocessor.rs label = r#"[_a-zA-Z][_a-zA-Z0-9]*:"# as as_label
//@contract
//@strslice
    requires vstd::std_specs::hash::obeys_key_model::<String>(),
        s.is_ascii() && s@.len() >= 2,    // the token's regex: an ASCII identifier followed by ':'
        s@.len() <= 0x7FFF_0000 && forall|k: String| #[trigger] old(context).label_map@.contains_key(k) ==> old(context).label_map@[k].source_position <= 0x7FFF_0000,
    ensures
        !has_key(old(context).label_map@, s@.drop_last()) ==> r.is_ok() && r->Ok_0@ == s@.drop_last()
            && final(context).label_map@.contains_key(r->Ok_0)
            && final(context).label_map@[r->Ok_0].map == old(out).code@.len() && final(context).label_map@[r->Ok_0].r#type is CODE
            && final(context).label_map@[r->Ok_0].source_position == start
            && final(context).label_map@ == old(context).label_map@.insert(r->Ok_0, final(context).label_map@[r->Ok_0]),
        has_key(old(context).label_map@, s@.drop_last()) ==> r.is_err() && final(context).label_map@ == old(context).label_map@,
        final(out).code@ == old(out).code@, final(out).data@ == old(out).data@, final(context).fn_map@ == old(context).fn_map@,
        final(context).mapper == old(context).mapper, final(context).data_counter == old(context).data_counter,
        asm_inv(old(context), old(out)) ==> asm_inv(final(context), final(out)), //# C08,C16 asm.output_invariant_preserved
//@end

//@action src/lib/preprocessor/preprocessor.rs call = quote_call, name_string as as_call
//@contract
//@fmttoks
    requires vstd::std_specs::hash::obeys_key_model::<String>(), old(context).mapper.v_next() < usize::MAX,
    ensures
        // calling something that is not a procedure is refused and nothing is emitted
        !old(context).fn_map@.contains_key(n) ==> r.is_err() && final(out).code@ == old(out).code@ && final(context).mapper.v_next() == old(context).mapper.v_next(),
        old(context).fn_map@.contains_key(n) ==> r.is_ok() && final(out).code@.len() == old(out).code@.len() + 1
            && final(out).code@.subrange(0, old(out).code@.len() as int) == old(out).code@
            && final(context).mapper.v_next() == old(context).mapper.v_next() + 1,
        final(out).data@ == old(out).data@, final(context).fn_map@ == old(context).fn_map@, final(context).label_map@ == old(context).label_map@,
        asm_inv(old(context), old(out)) ==> asm_inv(final(context), final(out)), //# C08,C16 asm.output_invariant_preserved
        r.is_ok() ==> toks(final(out).code@.last()@) == @TOKS(L:call P:n), //# C08,C11,C10 asm.emitted_line_is_the_source_instruction_in_the_interpreters_syntax
//@end

//@action src/lib/preprocessor/preprocessor.rs int = quote_int, u_byte_num as as_int
//@contract
//@fmttoks
    requires old(context).mapper.v_next() < usize::MAX,
    ensures
        // only the three supported interrupts are accepted
        (n == 3 || n == 0x10 || n == 0x21) ==> r.is_ok() && final(out).code@.len() == old(out).code@.len() + 1,
        !(n == 3 || n == 0x10 || n == 0x21) ==> r.is_err() && final(out).code@ == old(out).code@,
        final(out).data@ == old(out).data@,
        asm_inv(old(context), old(out)) ==> asm_inv(final(context), final(out)), //# C08,C16 asm.output_invariant_preserved
        r.is_ok() ==> toks(final(out).code@.last()@) == @TOKS(L:int N:n), //# C18,C11,C10 asm.emitted_line_is_the_source_instruction_in_the_interpreters_syntax
//@end

//@action src/lib/preprocessor/preprocessor.rs offset = quote_offset, name_string as as_offset
//@contract
    requires vstd::std_specs::hash::obeys_key_model::<String>(),
    ensures
        // OFFSET of a data label is the label's offset; of a code label or unknown name it is refused
        old(context).label_map@.contains_key(n) && old(context).label_map@[n].r#type is DATA ==> r.is_ok(),
        old(context).label_map@.contains_key(n) && old(context).label_map@[n].r#type is CODE ==> r.is_err(),
        !old(context).label_map@.contains_key(n) ==> r.is_err(),
        final(context).label_map@ == old(context).label_map@, final(out).code@ == old(out).code@, final(out).data@ == old(out).data@,
        asm_inv(old(context), old(out)) ==> asm_inv(final(context), final(out)), //# C08,C16 asm.output_invariant_preserved
//@end

//@action src/lib/preprocessor/preprocessor.rs byte_label = quote_byte_length, name_string as as_byte_label
//@contract
    requires vstd::std_specs::hash::obeys_key_model::<String>(),
    ensures
        old(context).label_map@.contains_key(n) && old(context).label_map@[n].r#type is DATA ==> r == Ok::<String, ParseError>(n),
        old(context).label_map@.contains_key(n) && old(context).label_map@[n].r#type is CODE ==> r.is_err(),
        !old(context).label_map@.contains_key(n) ==> r.is_err(),
        final(context).label_map@ == old(context).label_map@, final(out).code@ == old(out).code@,
        asm_inv(old(context), old(out)) ==> asm_inv(final(context), final(out)), //# C08,C16 asm.output_invariant_preserved
//@end

//@action src/lib/preprocessor/preprocessor.rs word_label = quote_word_length, name_string as as_word_label
//@contract
    requires vstd::std_specs::hash::obeys_key_model::<String>(),
    ensures
        old(context).label_map@.contains_key(n) && old(context).label_map@[n].r#type is DATA ==> r == Ok::<String, ParseError>(n),
        old(context).label_map@.contains_key(n) && old(context).label_map@[n].r#type is CODE ==> r.is_err(),
        !old(context).label_map@.contains_key(n) ==> r.is_err(),
        final(context).label_map@ == old(context).label_map@, final(out).code@ == old(out).code@,
        asm_inv(old(context), old(out)) ==> asm_inv(final(context), final(out)), //# C08,C16 asm.output_invariant_preserved
//@end

// the closing brace of a procedure emits the implied `ret`, associated with the position of the brace
//@action src/lib/preprocessor/preprocessor.rs procedure = proc_def, "{", proc_contents, "}" as as_procedure
//@contract
    requires old(context).mapper.v_next() < usize::MAX,
    ensures
        final(out).code@.len() == old(out).code@.len() + 1,
        final(out).code@.subrange(0, old(out).code@.len() as int) == old(out).code@,
        final(out).data@ == old(out).data@,
        final(context).mapper.v_map() == old(context).mapper.v_map().insert(old(context).mapper.v_next(),
            if old(context).mapper.v_lock() != 0 { old(context).mapper.v_last() } else { end }),
        final(context).fn_map@ == old(context).fn_map@, final(context).label_map@ == old(context).label_map@,
        asm_inv(old(context), old(out)) ==> asm_inv(final(context), final(out)), //# C08,C16 asm.output_invariant_preserved
//@end

//@action src/lib/preprocessor/preprocessor.rs jmps_loops = quote_jmps_loops, name_string as as_jmps_loops
//@contract
//@fmttoks
    requires vstd::std_specs::hash::obeys_key_model::<String>(), old(context).mapper.v_next() < usize::MAX,
    ensures
        // a jump to a data label is refused and nothing is emitted; otherwise one instruction is emitted
        old(context).label_map@.contains_key(n) && old(context).label_map@[n].r#type is DATA ==> r.is_err() && final(out).code@ == old(out).code@,
        !(old(context).label_map@.contains_key(n) && old(context).label_map@[n].r#type is DATA) ==> r.is_ok()
            && final(out).code@.len() == old(out).code@.len() + 1
            && final(out).code@.subrange(0, old(out).code@.len() as int) == old(out).code@,
        final(out).data@ == old(out).data@, final(context).label_map@ == old(context).label_map@, final(context).fn_map@ == old(context).fn_map@,
        asm_inv(old(context), old(out)) ==> asm_inv(final(context), final(out)), //# C08,C16 asm.output_invariant_preserved
        r.is_ok() ==> toks(final(out).code@.last()@) == @TOKS(P:q P:n), //# C06,C08,C11,C10 asm.emitted_line_is_the_source_instruction_in_the_interpreters_syntax
//@end


// ------------------------------------------------------------------ data directives (C12)
//@action src/lib/preprocessor/preprocessor.rs db_directive = label, quote_db, s_byte_num as as_db_value
//@contract
//@fmttoks
    requires vstd::std_specs::hash::obeys_key_model::<String>(),
    ensures
        // the label denotes the offset of the first byte of the definition (the counter BEFORE it is advanced),
        // the counter advances by the size of the definition, one loader line is emitted
        old(context).data_counter + 1 <= 65535 ==> r.is_ok()
            && final(context).data_counter == old(context).data_counter + 1
            && final(out).data@.len() == old(out).data@.len() + 1
            && final(out).data@.subrange(0, old(out).data@.len() as int) == old(out).data@
            && (l is None ==> final(context).label_map@ == old(context).label_map@)
            && (l is Some ==> final(context).label_map@.contains_key(l->0)
                    && final(context).label_map@ == old(context).label_map@.insert(l->0, final(context).label_map@[l->0])
                    && final(context).label_map@[l->0].map == old(context).data_counter
                    && final(context).label_map@[l->0].r#type is DATA),
        // definitions that do not fit in the 64 KiB segment are diagnosed: nothing is emitted, no label defined
        old(context).data_counter + 1 > 65535 ==> r.is_err() && final(context).data_counter == old(context).data_counter
            && final(out).data@ == old(out).data@ && final(context).label_map@ == old(context).label_map@,
        final(out).code@ == old(out).code@, final(context).fn_map@ == old(context).fn_map@,
        asm_inv(old(context), old(out)) ==> asm_inv(final(context), final(out)), //# C08,C16 asm.output_invariant_preserved
        r.is_ok() ==> toks(final(out).data@.last()@) == @TOKS(L:db N:n), //# C12,C11,C10 asm.emitted_line_is_the_directive_in_the_loaders_syntax
//@end

//@action src/lib/preprocessor/preprocessor.rs db_directive = label, quote_db, "[", u_word_num, "]" as as_db_zeros
//@contract
//@fmttoks
    requires vstd::std_specs::hash::obeys_key_model::<String>(),
    ensures
        // the label denotes the offset of the first byte of the definition (the counter BEFORE it is advanced),
        // the counter advances by the size of the definition, one loader line is emitted
        old(context).data_counter + n <= 65535 ==> r.is_ok()
            && final(context).data_counter == old(context).data_counter + n
            && final(out).data@.len() == old(out).data@.len() + 1
            && final(out).data@.subrange(0, old(out).data@.len() as int) == old(out).data@
            && (l is None ==> final(context).label_map@ == old(context).label_map@)
            && (l is Some ==> final(context).label_map@.contains_key(l->0)
                    && final(context).label_map@ == old(context).label_map@.insert(l->0, final(context).label_map@[l->0])
                    && final(context).label_map@[l->0].map == old(context).data_counter
                    && final(context).label_map@[l->0].r#type is DATA),
        // definitions that do not fit in the 64 KiB segment are diagnosed: nothing is emitted, no label defined
        old(context).data_counter + n > 65535 ==> r.is_err() && final(context).data_counter == old(context).data_counter
            && final(out).data@ == old(out).data@ && final(context).label_map@ == old(context).label_map@,
        final(out).code@ == old(out).code@, final(context).fn_map@ == old(context).fn_map@,
        asm_inv(old(context), old(out)) ==> asm_inv(final(context), final(out)), //# C08,C16 asm.output_invariant_preserved
        r.is_ok() ==> toks(final(out).data@.last()@) == @TOKS(L:db L:[ N:n L:]), //# C12,C11,C10 asm.emitted_line_is_the_directive_in_the_loaders_syntax
//@end

//@action src/lib/preprocessor/preprocessor.rs db_directive = label, quote_db, "[", s_byte_num, ",", u_word_num, "]" as as_db_fill
//@contract
//@fmttoks
    requires vstd::std_specs::hash::obeys_key_model::<String>(),
    ensures
        // the label denotes the offset of the first byte of the definition (the counter BEFORE it is advanced),
        // the counter advances by the size of the definition, one loader line is emitted
        old(context).data_counter + n <= 65535 ==> r.is_ok()
            && final(context).data_counter == old(context).data_counter + n
            && final(out).data@.len() == old(out).data@.len() + 1
            && final(out).data@.subrange(0, old(out).data@.len() as int) == old(out).data@
            && (l is None ==> final(context).label_map@ == old(context).label_map@)
            && (l is Some ==> final(context).label_map@.contains_key(l->0)
                    && final(context).label_map@ == old(context).label_map@.insert(l->0, final(context).label_map@[l->0])
                    && final(context).label_map@[l->0].map == old(context).data_counter
                    && final(context).label_map@[l->0].r#type is DATA),
        // definitions that do not fit in the 64 KiB segment are diagnosed: nothing is emitted, no label defined
        old(context).data_counter + n > 65535 ==> r.is_err() && final(context).data_counter == old(context).data_counter
            && final(out).data@ == old(out).data@ && final(context).label_map@ == old(context).label_map@,
        final(out).code@ == old(out).code@, final(context).fn_map@ == old(context).fn_map@,
        asm_inv(old(context), old(out)) ==> asm_inv(final(context), final(out)), //# C08,C16 asm.output_invariant_preserved
        r.is_ok() ==> toks(final(out).data@.last()@) == @TOKS(L:db L:[ N:v L:, N:n L:]), //# C12,C11,C10 asm.emitted_line_is_the_directive_in_the_loaders_syntax
//@end

//@action src/lib/preprocessor/preprocessor.rs dw_directive = label, quote_dw, s_word_num as as_dw_value
//@contract
//@fmttoks
    requires vstd::std_specs::hash::obeys_key_model::<String>(),
    ensures
        // the label denotes the offset of the first byte of the definition (the counter BEFORE it is advanced),
        // the counter advances by the size of the definition, one loader line is emitted
        old(context).data_counter + 2 <= 65535 ==> r.is_ok()
            && final(context).data_counter == old(context).data_counter + 2
            && final(out).data@.len() == old(out).data@.len() + 1
            && final(out).data@.subrange(0, old(out).data@.len() as int) == old(out).data@
            && (l is None ==> final(context).label_map@ == old(context).label_map@)
            && (l is Some ==> final(context).label_map@.contains_key(l->0)
                    && final(context).label_map@ == old(context).label_map@.insert(l->0, final(context).label_map@[l->0])
                    && final(context).label_map@[l->0].map == old(context).data_counter
                    && final(context).label_map@[l->0].r#type is DATA),
        // definitions that do not fit in the 64 KiB segment are diagnosed: nothing is emitted, no label defined
        old(context).data_counter + 2 > 65535 ==> r.is_err() && final(context).data_counter == old(context).data_counter
            && final(out).data@ == old(out).data@ && final(context).label_map@ == old(context).label_map@,
        final(out).code@ == old(out).code@, final(context).fn_map@ == old(context).fn_map@,
        asm_inv(old(context), old(out)) ==> asm_inv(final(context), final(out)), //# C08,C16 asm.output_invariant_preserved
        r.is_ok() ==> toks(final(out).data@.last()@) == @TOKS(L:dw N:n), //# C12,C11,C10 asm.emitted_line_is_the_directive_in_the_loaders_syntax
//@end

//@action src/lib/preprocessor/preprocessor.rs dw_directive = label, quote_dw, "[", u_word_num, "]" as as_dw_zeros
//@contract
//@fmttoks
    requires vstd::std_specs::hash::obeys_key_model::<String>(),
    ensures
        // the label denotes the offset of the first byte of the definition (the counter BEFORE it is advanced),
        // the counter advances by the size of the definition, one loader line is emitted
        old(context).data_counter + 2 * n <= 65535 ==> r.is_ok()
            && final(context).data_counter == old(context).data_counter + 2 * n
            && final(out).data@.len() == old(out).data@.len() + 1
            && final(out).data@.subrange(0, old(out).data@.len() as int) == old(out).data@
            && (l is None ==> final(context).label_map@ == old(context).label_map@)
            && (l is Some ==> final(context).label_map@.contains_key(l->0)
                    && final(context).label_map@ == old(context).label_map@.insert(l->0, final(context).label_map@[l->0])
                    && final(context).label_map@[l->0].map == old(context).data_counter
                    && final(context).label_map@[l->0].r#type is DATA),
        // definitions that do not fit in the 64 KiB segment are diagnosed: nothing is emitted, no label defined
        old(context).data_counter + 2 * n > 65535 ==> r.is_err() && final(context).data_counter == old(context).data_counter
            && final(out).data@ == old(out).data@ && final(context).label_map@ == old(context).label_map@,
        final(out).code@ == old(out).code@, final(context).fn_map@ == old(context).fn_map@,
        asm_inv(old(context), old(out)) ==> asm_inv(final(context), final(out)), //# C08,C16 asm.output_invariant_preserved
        r.is_ok() ==> toks(final(out).data@.last()@) == @TOKS(L:dw L:[ N:n L:]), //# C12,C11,C10 asm.emitted_line_is_the_directive_in_the_loaders_syntax
//@end

//@action src/lib/preprocessor/preprocessor.rs dw_directive = label, quote_dw, "[", s_word_num, ",", u_word_num, "]" as as_dw_fill
//@contract
//@fmttoks
    requires vstd::std_specs::hash::obeys_key_model::<String>(),
    ensures
        // the label denotes the offset of the first byte of the definition (the counter BEFORE it is advanced),
        // the counter advances by the size of the definition, one loader line is emitted
        old(context).data_counter + 2 * n <= 65535 ==> r.is_ok()
            && final(context).data_counter == old(context).data_counter + 2 * n
            && final(out).data@.len() == old(out).data@.len() + 1
            && final(out).data@.subrange(0, old(out).data@.len() as int) == old(out).data@
            && (l is None ==> final(context).label_map@ == old(context).label_map@)
            && (l is Some ==> final(context).label_map@.contains_key(l->0)
                    && final(context).label_map@ == old(context).label_map@.insert(l->0, final(context).label_map@[l->0])
                    && final(context).label_map@[l->0].map == old(context).data_counter
                    && final(context).label_map@[l->0].r#type is DATA),
        // definitions that do not fit in the 64 KiB segment are diagnosed: nothing is emitted, no label defined
        old(context).data_counter + 2 * n > 65535 ==> r.is_err() && final(context).data_counter == old(context).data_counter
            && final(out).data@ == old(out).data@ && final(context).label_map@ == old(context).label_map@,
        final(out).code@ == old(out).code@, final(context).fn_map@ == old(context).fn_map@,
        asm_inv(old(context), old(out)) ==> asm_inv(final(context), final(out)), //# C08,C16 asm.output_invariant_preserved
        r.is_ok() ==> toks(final(out).data@.last()@) == @TOKS(L:dw L:[ N:v L:, N:n L:]), //# C12,C11,C10 asm.emitted_line_is_the_directive_in_the_loaders_syntax
//@end

//@action src/lib/preprocessor/preprocessor.rs db_directive = label, quote_db, r#"\"[[:print:]]*\""# as as_db_string
//@contract
//@fmttoks
//@strslice
    requires vstd::std_specs::hash::obeys_key_model::<String>(),
        q.is_ascii() && q@.len() >= 2,     // the token's regex: printable ASCII between two quotes
        q@.len() <= 0x7FFF_0000,           // a token is part of the source text (assumed below 2^31 bytes, as everywhere)
    ensures
        // a string defines one byte per character between the quotes: the label denotes the offset before it, the counter
        // advances by exactly that size, one loader line is emitted
        old(context).data_counter + (q@.len() - 2) <= 65535 ==> r.is_ok()
            && final(context).data_counter == old(context).data_counter + (q@.len() - 2)
            && final(out).data@.len() == old(out).data@.len() + 1
            && final(out).data@.subrange(0, old(out).data@.len() as int) == old(out).data@
            && (l is None ==> final(context).label_map@ == old(context).label_map@)
            && (l is Some ==> final(context).label_map@.contains_key(l->0)
                    && final(context).label_map@ == old(context).label_map@.insert(l->0, final(context).label_map@[l->0])
                    && final(context).label_map@[l->0].map == old(context).data_counter
                    && final(context).label_map@[l->0].r#type is DATA),
        old(context).data_counter + (q@.len() - 2) > 65535 ==> r.is_err() && final(context).data_counter == old(context).data_counter
            && final(out).data@ == old(out).data@ && final(context).label_map@ == old(context).label_map@,
        final(out).code@ == old(out).code@, final(context).fn_map@ == old(context).fn_map@,
        asm_inv(old(context), old(out)) ==> asm_inv(final(context), final(out)), //# C08,C16 asm.output_invariant_preserved
        r.is_ok() ==> toks(final(out).data@.last()@) == @TOKS(L:db P:q), //# C12,C11,C10 asm.emitted_line_is_the_directive_in_the_loaders_syntax
//@end

//@action src/lib/preprocessor/preprocessor.rs dw_directive = label, quote_dw, r#"\"[[:print:]]*\""# as as_dw_string
//@contract
//@fmttoks
//@strslice
    requires vstd::std_specs::hash::obeys_key_model::<String>(),
        q.is_ascii() && q@.len() >= 2,     // the token's regex: printable ASCII between two quotes
        q@.len() <= 0x7FFF_0000,           // a token is part of the source text (assumed below 2^31 bytes, as everywhere)
    ensures
        // a string defines one word per character between the quotes: the label denotes the offset before it, the counter
        // advances by exactly that size, one loader line is emitted
        old(context).data_counter + 2 * (q@.len() - 2) <= 65535 ==> r.is_ok()
            && final(context).data_counter == old(context).data_counter + 2 * (q@.len() - 2)
            && final(out).data@.len() == old(out).data@.len() + 1
            && final(out).data@.subrange(0, old(out).data@.len() as int) == old(out).data@
            && (l is None ==> final(context).label_map@ == old(context).label_map@)
            && (l is Some ==> final(context).label_map@.contains_key(l->0)
                    && final(context).label_map@ == old(context).label_map@.insert(l->0, final(context).label_map@[l->0])
                    && final(context).label_map@[l->0].map == old(context).data_counter
                    && final(context).label_map@[l->0].r#type is DATA),
        old(context).data_counter + 2 * (q@.len() - 2) > 65535 ==> r.is_err() && final(context).data_counter == old(context).data_counter
            && final(out).data@ == old(out).data@ && final(context).label_map@ == old(context).label_map@,
        final(out).code@ == old(out).code@, final(context).fn_map@ == old(context).fn_map@,
        asm_inv(old(context), old(out)) ==> asm_inv(final(context), final(out)), //# C08,C16 asm.output_invariant_preserved
        r.is_ok() ==> toks(final(out).data@.last()@) == @TOKS(L:dw P:q), //# C12,C11,C10 asm.emitted_line_is_the_directive_in_the_loaders_syntax
//@end

//@action src/lib/preprocessor/preprocessor.rs set_directive = quote_set, u_word_num as as_set
//@contract
//@fmttoks
    ensures final(context).data_counter == 0, final(out).data@.len() == old(out).data@.len() + 1,
        final(out).code@ == old(out).code@, final(context).label_map@ == old(context).label_map@,
        asm_inv(old(context), old(out)) ==> asm_inv(final(context), final(out)), //# C08,C16 asm.output_invariant_preserved
        toks(final(out).data@.last()@) == @TOKS(L:set N:n), //# C12,C11,C10 asm.emitted_line_is_the_directive_in_the_loaders_syntax
//@end

// ---- string instructions: `movs byte` / `cmps word` ...: the mnemonic (already lowered by its table) followed by the operand size
//@action src/lib/preprocessor/preprocessor.rs string_condition_repeat_opcode = quote_condition_repeat_opcode, quote_byte_length as as_string_condition_repeat_opcode_byte
//@contract
//@fmttoks
//@dropunused
    ensures toks(r@) == @TOKS(P:q L:byte), //# C07,C11,C10 asm.string_instruction_text_carries_its_operand_size
//@end

//@action src/lib/preprocessor/preprocessor.rs string_condition_repeat_opcode = quote_condition_repeat_opcode, quote_word_length as as_string_condition_repeat_opcode_word
//@contract
//@fmttoks
//@dropunused
    ensures toks(r@) == @TOKS(P:q L:word), //# C07,C11,C10 asm.string_instruction_text_carries_its_operand_size
//@end

//@action src/lib/preprocessor/preprocessor.rs string_repeat_opcode = quote_repeat_opcode, quote_byte_length as as_string_repeat_opcode_byte
//@contract
//@fmttoks
//@dropunused
    ensures toks(r@) == @TOKS(P:q L:byte), //# C07,C11,C10 asm.string_instruction_text_carries_its_operand_size
//@end

//@action src/lib/preprocessor/preprocessor.rs string_repeat_opcode = quote_repeat_opcode, quote_word_length as as_string_repeat_opcode_word
//@contract
//@fmttoks
//@dropunused
    ensures toks(r@) == @TOKS(P:q L:word), //# C07,C11,C10 asm.string_instruction_text_carries_its_operand_size
//@end

// ---- macro definition: the table gains exactly this name (its body text is built with Regex::replace_all: not modelled), nothing
// is emitted and nothing else changes
pub struct Regex;
pub struct RegexResult;
pub struct Replaced;
pub struct Captures;
impl Regex {
    // assumed total: the pattern is \b<identifier>\b
    #[verifier::external_body]
    pub fn new(p: &String) -> (r: RegexResult) { unimplemented!() }
    #[verifier::external_body]
    pub fn replace_all<F: Fn(&Captures) -> String>(&self, text: &String, rep: F) -> (r: Replaced) { unimplemented!() }
}
impl RegexResult {
    #[verifier::external_body]
    pub fn unwrap(self) -> (r: Regex) { unimplemented!() }
}
impl Replaced {
    #[verifier::external_body]
    pub fn to_string(&self) -> (r: String) { unimplemented!() }
}
//@action src/lib/preprocessor/preprocessor.rs macro_def = quote_macro, name_string, "(", CommaSepList<name_string>, ")", "->", r#"[_a-zA-Z0-9\\[\\]\\(\\), ]*<-"# as as_macro_def
//@contract
//@strslice
//@dropunused
    requires vstd::std_specs::hash::obeys_key_model::<String>(), s.is_ascii(), s@.len() >= 2,      // the body token ends in `<-`
    ensures
        final(context).macro_map@.contains_key(name), //# C13 macro.definition_enters_the_table_under_its_name
        final(context).macro_map@ == old(context).macro_map@.insert(name, final(context).macro_map@[name]), //# C13 macro.definition_changes_no_other_entry
        final(context).macro_nesting_counter@ == old(context).macro_nesting_counter@, final(context).label_map@ == old(context).label_map@,
        final(context).fn_map@ == old(context).fn_map@, final(context).mapper == old(context).mapper, final(context).data_counter == old(context).data_counter,
//@end

// ---- macro arguments (general_string): a memory operand keeps its size keyword, a constant is handed on by its value
//@action src/lib/preprocessor/preprocessor.rs general_string = quote_byte_length, memory_addr as as_macro_arg_byte_mem
//@contract
//@fmttoks
//@dropunused
    ensures toks(r@) == @TOKS(L:byte P:m), //# C13,C11 macro.argument_is_handed_on_as_written
//@end

//@action src/lib/preprocessor/preprocessor.rs general_string = quote_word_length, memory_addr as as_macro_arg_word_mem
//@contract
//@fmttoks
//@dropunused
    ensures toks(r@) == @TOKS(L:word P:m), //# C13,C11 macro.argument_is_handed_on_as_written
//@end

//@action src/lib/preprocessor/preprocessor.rs general_string = u_word_num as as_macro_arg_number
//@contract
//@fmttoks
//@dropunused
    ensures toks(r@) == @TOKS(N:n), //# C13,C11 macro.argument_is_handed_on_as_written
//@end

// ---- macro use (C16: the position of the OUTERMOST use is frozen around the expansion and released afterwards; C13/C19: a use of a
// macro that is being expanded is refused, and the set of macros under expansion is restored whatever the expansion ends with).
// The nested parse of the expansion is the recursive call of this very grammar: its ASSUMED contract is the property itself one
// level down (balanced freezing, restored expansion set, tables only grow) -- induction on the nesting depth, which the recursion
// check bounds by the number of macros.
pub struct PreprocessorParser;
impl PreprocessorParser {
    #[verifier::external_body]
    pub fn new() -> (r: PreprocessorParser) { PreprocessorParser }
    #[verifier::external_body]
    pub fn parse(&self, context: &mut Context, out: &mut Output, input: &String) -> (r: Result<(), ParseError>)
        ensures
            final(context).mapper.v_lock() == old(context).mapper.v_lock(),
            old(context).mapper.v_lock() > 0 ==> final(context).mapper.v_last() == old(context).mapper.v_last(),
            final(context).macro_nesting_counter@ == old(context).macro_nesting_counter@,
            final(context).macro_map@ == old(context).macro_map@,
            final(out).code@.len() >= old(out).code@.len(),
            final(out).code@.subrange(0, old(out).code@.len() as int) == old(out).code@,
            // a diagnostic piggybacked on UnrecognizedToken (empty token text) is built by error! and carries its one message
            r matches Err(ParseError::UnrecognizedToken { token, expected }) ==> (token.1.1@ == ""@ ==> expected@.len() >= 1),
    { unimplemented!() }
}

//@action src/lib/preprocessor/preprocessor.rs macro_use = r#"[_a-zA-Z][_a-zA-Z0-9]*"#, "(", CommaSepList<general_string>, ")" as as_macro_use
//@contract
//@strslice
    requires vstd::std_specs::hash::obeys_key_model::<String>(), l.is_ascii(),
        old(context).mapper.v_lock() < u16::MAX,
        start + l@.len() <= end,          // positions of the parse: the name starts at `start`, the use ends at `end`
    ensures
        // an unknown macro and a use of a macro that is being expanded are refused, and nothing is emitted
        !has_key(old(context).macro_map@, l@) ==> r.is_err() && final(out).code@ == old(out).code@, //# C14,C13 macro.unknown_macro_is_refused
        has_key(old(context).macro_map@, l@) && has_elem(old(context).macro_nesting_counter@, l@)
            ==> r.is_err() && final(out).code@ == old(out).code@, //# C14,C13,C15 macro.recursive_use_is_refused
        // the source position is frozen at this use only if no enclosing use froze it already, and released again
        final(context).mapper.v_lock() == old(context).mapper.v_lock(), //# C16,C19 macro.freeze_and_release_are_balanced
        // whatever goes wrong with this use -- unknown macro, recursion, an expansion that is not valid code -- the diagnostic is raised at
        // the position of the USE in the text being parsed (never at a position inside the expanded body) and ends inside the use
        r matches Err(ParseError::UnrecognizedToken { token, expected }) ==> token.0 == start && token.2 <= end && token.1.1@ == ""@ && expected@.len() == 1, //# C16,C13 macro.diagnostics_are_raised_at_the_position_of_the_use
        (r matches Err(_)) ==> (r matches Err(ParseError::UnrecognizedToken { .. })),
        old(context).mapper.v_lock() > 0 ==> final(context).mapper.v_last() == old(context).mapper.v_last(), //# C16 macro.an_enclosing_use_keeps_its_position
        // the set of macros under expansion is restored whatever the expansion ended with
        final(context).macro_nesting_counter@ == old(context).macro_nesting_counter@, //# C19,C13,C15 macro.expansion_set_is_restored
        final(context).macro_map@ == old(context).macro_map@,
        final(out).code@.len() >= old(out).code@.len(), final(out).code@.subrange(0, old(out).code@.len() as int) == old(out).code@,
//@end

// print mem <start> : <length>  -- refused when it would run past the end of memory
//@action src/lib/preprocessor/preprocessor.rs print_stmt = quote_print, quote_mem, raw_addr, ":", raw_addr as as_print_mem_len
//@contract
//@fmttoks
    requires old(context).mapper.v_next() < usize::MAX,
        s < 0x100000, e < 0x100000,          // what raw_addr delivers (unit numbers: value modulo 1 MB)
    ensures
        s + e >= 0x100000 ==> r.is_err() && final(out).code@ == old(out).code@ && final(context).mapper.v_next() == old(context).mapper.v_next(), //# C17,C14,C10 asm.print_range_past_the_end_of_memory_is_refused
        s + e < 0x100000 ==> r.is_ok() && final(out).code@.len() == old(out).code@.len() + 1
            && final(out).code@.subrange(0, old(out).code@.len() as int) == old(out).code@
            && final(context).mapper.v_next() == old(context).mapper.v_next() + 1,
        r.is_ok() ==> toks(final(out).code@.last()@) == @TOKS(L:print L:mem N:s L:: N:e), //# C17,C11,C10 asm.emitted_line_is_the_source_instruction_in_the_interpreters_syntax
        final(out).data@ == old(out).data@, final(context).label_map@ == old(context).label_map@, final(context).fn_map@ == old(context).fn_map@,
        asm_inv(old(context), old(out)) ==> asm_inv(final(context), final(out)), //# C08,C16 asm.output_invariant_preserved
//@end

// ---- memory operands: [disp] / [reg] / [base,disp] / [index,disp] / [base,index,disp], optional segment override `seg:`;
// the text handed on is the operand as written (a missing displacement of the based-indexed form is rendered as 0)
//@action src/lib/preprocessor/preprocessor.rs memory_addr = "[", u_word_num, "]" as as_mem_direct
//@contract
//@fmttoks
//@result res
//@dropunused
//@fmtvar s:String
    ensures
        sr is Some ==> toks(res@) == @TOKS(P:sr->0 L:: L:[ N:n L:]), //# C04,C11,C10 asm.memory_operand_text_is_the_source_operand_in_the_interpreters_syntax
        sr is None ==> toks(res@) == @TOKS(L:[ N:n L:]), //# C04,C11,C10 asm.memory_operand_text_is_the_source_operand_in_the_interpreters_syntax
//@end

//@action src/lib/preprocessor/preprocessor.rs memory_addr = "[", base_index_reg, "]" as as_mem_indirect
//@contract
//@fmttoks
//@result res
//@dropunused
//@fmtvar s:String
    ensures
        sr is Some ==> toks(res@) == @TOKS(P:sr->0 L:: L:[ P:r L:]), //# C04,C11,C10 asm.memory_operand_text_is_the_source_operand_in_the_interpreters_syntax
        sr is None ==> toks(res@) == @TOKS(L:[ P:r L:]), //# C04,C11,C10 asm.memory_operand_text_is_the_source_operand_in_the_interpreters_syntax
//@end

//@action src/lib/preprocessor/preprocessor.rs memory_addr = "[", base_reg, ",", s_word_num, "]" as as_mem_based
//@contract
//@fmttoks
//@result res
//@dropunused
//@fmtvar s:String
    ensures
        sr is Some ==> toks(res@) == @TOKS(P:sr->0 L:: L:[ P:r L:, N:n L:]), //# C04,C11,C10 asm.memory_operand_text_is_the_source_operand_in_the_interpreters_syntax
        sr is None ==> toks(res@) == @TOKS(L:[ P:r L:, N:n L:]), //# C04,C11,C10 asm.memory_operand_text_is_the_source_operand_in_the_interpreters_syntax
//@end

//@action src/lib/preprocessor/preprocessor.rs memory_addr = "[", index_reg, ",", s_word_num, "]" as as_mem_indexed
//@contract
//@fmttoks
//@result res
//@dropunused
//@fmtvar s:String
    ensures
        sr is Some ==> toks(res@) == @TOKS(P:sr->0 L:: L:[ P:r L:, N:n L:]), //# C04,C11,C10 asm.memory_operand_text_is_the_source_operand_in_the_interpreters_syntax
        sr is None ==> toks(res@) == @TOKS(L:[ P:r L:, N:n L:]), //# C04,C11,C10 asm.memory_operand_text_is_the_source_operand_in_the_interpreters_syntax
//@end

//@action src/lib/preprocessor/preprocessor.rs memory_addr = "[", base_reg, ",", index_reg, "]" as as_mem_based_indexed
//@contract
//@fmttoks
//@result res
//@dropunused
//@fmtvar s:String n:i16
    ensures
        sr is Some && k is Some ==> toks(res@) == @TOKS(P:sr->0 L:: L:[ P:b L:, P:i L:, N:k->0 L:]), //# C04,C11,C10 asm.memory_operand_text_is_the_source_operand_in_the_interpreters_syntax
        sr is Some && k is None ==> toks(res@) == @TOKS(P:sr->0 L:: L:[ P:b L:, P:i L:, N:0 L:]), //# C04,C11,C10 asm.memory_operand_text_is_the_source_operand_in_the_interpreters_syntax
        sr is None && k is Some ==> toks(res@) == @TOKS(L:[ P:b L:, P:i L:, N:k->0 L:]), //# C04,C11,C10 asm.memory_operand_text_is_the_source_operand_in_the_interpreters_syntax
        sr is None && k is None ==> toks(res@) == @TOKS(L:[ P:b L:, P:i L:, N:0 L:]), //# C04,C11,C10 asm.memory_operand_text_is_the_source_operand_in_the_interpreters_syntax
//@end

// an OFFSET used as a byte constant must fit in a byte
//@action src/lib/preprocessor/preprocessor.rs u_byte_num = offset as as_offset_as_byte
//@contract
    ensures
        o <= 255 ==> r == Ok::<u8, ParseError>(o as u8),
        o > 255 ==> r.is_err(),
        final(out).code@ == old(out).code@, final(out).data@ == old(out).data@, final(context).label_map@ == old(context).label_map@,
        asm_inv(old(context), old(out)) ==> asm_inv(final(context), final(out)), //# C08,C16 asm.output_invariant_preserved
//@end

// unsupported instructions are always refused
//@action src/lib/preprocessor/preprocessor.rs control_unsupported = quote_control_unsuppoted as as_unsupported
//@contract
    ensures r.is_err(), final(out).code@ == old(out).code@, final(out).data@ == old(out).data@,
        asm_inv(old(context), old(out)) ==> asm_inv(final(context), final(out)), //# C08,C16 asm.output_invariant_preserved
//@end

} // verus!
fn main() {}
