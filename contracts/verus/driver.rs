// Unit `driver` (C07, C08, C12, C14, C17, C18, C19): src/driver/driver.rs `CMDDriver::run` and
// src/driver/user_interface.rs `user_interface`, verbatim (rewrites R2-R9 logged below).
//
// The fetch-execute loop acts only through its callees, so every callee is either a function under contract here
// (get_type, get_source_map, user_interface) or a STUB whose assumed contract appends a ghost event to a trace
// (`Trace`): which line was given to which parser with which index, in which order.  The listed properties then are
// loop invariants / postconditions of `run` over that trace, for every program, every result the interpreter can
// return, every machine state and every input.  The stubs' contracts are ASSUMPTIONS of this unit; each names the unit
// that discharges it (or says that nothing does).
use std::collections::{HashMap, HashSet, BTreeSet};
use vstd::std_specs::iter::IteratorSpec;
use vstd::std_specs::cmp::OrdSpec;
verus! {

//@broadcast vstd::std_specs::btree::group_btree_axioms, vstd::std_specs::btree::axiom_increasing_seq_meaning

//@item src/lib/util/interpreter_util.rs enum State
//@item src/lib/util/preprocessor_util.rs enum LabelType
//@item src/lib/util/preprocessor_util.rs struct Label
impl Label {
//@fn src/lib/util/preprocessor_util.rs get_type
//@contract
        ensures r == self.r#type,
//@end
}
//@item src/lib/util/preprocessor_util.rs struct SourceMapper
impl SourceMapper {
    pub closed spec fn v_map(&self) -> Map<usize, usize> { self.source_map@ }
//@fn src/lib/util/preprocessor_util.rs get_source_map
//@contract
        ensures r@ == self.v_map(),
//@end
}
//@item src/lib/util/preprocessor_util.rs struct Context as PreprocessorContext
//@item src/lib/util/preprocessor_util.rs struct Output as PreprocessorOutput
//@item src/lib/util/interpreter_util.rs struct Context as InterpreterContext
//@item src/lib/util/flag_util.rs enum Flags
//@item src/driver/driver.rs struct CMDDriver

// ---------------------------------------------------------------- ghost event trace
// Every event carries MONITOR flags: what the property demands of this event, evaluated against the trace so far at the
// moment the stub is called.  A property is then "every event's flag is true" (an invariant of the loop), and the loop only
// has to establish, for the event it is about to cause, facts about the LAST event and its own variables.
pub ghost struct ExecEv {
    pub idx: int,                 // index given to the interpreter
    pub line: Seq<char>,          // line given to the interpreter
    pub ds_before: u16,           // DS when the instruction started
    pub tf_before: bool,          // trap flag when the instruction started
    pub res: Option<State>,       // what the interpreter answered (None: a reported error)
    pub ah_after: u8,             // AH afterwards (selects the interrupt service)
    pub log_len: int,             // messages printed before it
    pub prompts_before: int,      // prompt sessions before it
    pub ok_line: bool, pub ok_first: bool, pub ok_after: bool, pub ok_after_int: bool, pub ok_jmp: bool, pub ok_next: bool, pub ok_repeat: bool,
    pub ok_print: bool, pub ok_int: bool, pub ok_prompts: bool, pub ok_data: bool,
}
pub ghost struct DataEv { pub ctr_in: usize, pub ctr_out: usize, pub line: Seq<char>, pub ok: bool, pub okay: bool }
pub ghost struct PrintEv { pub line: Seq<char>, pub at: int, pub justified: bool }
pub ghost struct SvcEv { pub which: u8, pub ah: u8, pub at: int, pub justified: bool }
/// what the assembler produced (recorded by the `preprocess` stub)
pub ghost struct PreView {
    pub ok: bool,
    pub lmap: Map<String, Label>,
    pub und: Set<(usize, String)>,
    pub code: Seq<String>,
    pub data: Seq<String>,
}
pub tracked struct Trace {
    pub ghost pre: PreView,
    pub ghost pre_calls: int,
    pub ghost datas: Seq<DataEv>,         // loader calls
    pub ghost execs: Seq<ExecEv>,         // interpreter calls
    pub ghost code_prints: Seq<PrintEv>,  // print reader called for a print line of the program
    pub ghost prompt_prints: Seq<PrintEv>,// print reader called for a line typed at the prompt
    pub ghost svcs: Seq<SvcEv>,           // int_13 / int_21 calls
    pub ghost prompts: Seq<int>,          // one entry per prompt session: number of instructions executed before it
}
impl Trace {
    /// recorded by rewrite R7 after every call of user_interface
    pub proof fn note_prompt(tracked &mut self)
        ensures final(self).prompts == old(self).prompts.push(old(self).execs.len() as int),
            final(self).pre == old(self).pre, final(self).pre_calls == old(self).pre_calls, final(self).datas == old(self).datas,
            final(self).execs == old(self).execs, final(self).code_prints == old(self).code_prints,
            final(self).prompt_prints == old(self).prompt_prints, final(self).svcs == old(self).svcs,
    {
        self.prompts = self.prompts.push(self.execs.len() as int);
    }
}
/// C16: where run-time messages take their line from.  Kept apart from `Trace` (and free of sequences and quantifiers) so that
/// recording a citation does not disturb the facts about the execution trace.  Updated by proof blocks that rewrite R7 puts
/// after every `source_map.get(&<index>)` and every `get_err_pos(&lh, <position>)`.
pub tracked struct CiteLog {
    pub ghost has_lookup: bool,
    pub ghost last_pos: int,        // the position the source map gave at the most recent lookup
    pub ghost lookups_ok: bool,     // every lookup so far asked for the loop's current index (the instruction the message is about)
    pub ghost cites_ok: bool,       // every line cited so far (after the first lookup) is the line of exactly that position
    pub ghost n_cites: int,
}
impl CiteLog {
    pub proof fn note_lookup(tracked &mut self, asked: int, idx: int, pos: int)
        ensures final(self).has_lookup, final(self).last_pos == pos, final(self).lookups_ok == (old(self).lookups_ok && asked == idx),
            final(self).cites_ok == old(self).cites_ok, final(self).n_cites == old(self).n_cites,
    {
        self.has_lookup = true; self.last_pos = pos; self.lookups_ok = self.lookups_ok && asked == idx;
    }
    pub proof fn note_cite(tracked &mut self, line: int, pos: int)
        ensures final(self).cites_ok == (old(self).cites_ok && (old(self).has_lookup ==> pos == old(self).last_pos)),
            final(self).has_lookup == old(self).has_lookup, final(self).last_pos == old(self).last_pos, final(self).lookups_ok == old(self).lookups_ok,
            final(self).n_cites == old(self).n_cites + 1,
    {
        self.cites_ok = self.cites_ok && (self.has_lookup ==> pos == self.last_pos); self.n_cites = self.n_cites + 1;
    }
}
pub open spec fn code_hlt(p: PreView) -> Seq<Seq<char>> {
    Seq::new(p.code.len() + 1, |k: int| if k < p.code.len() { p.code[k]@ } else { "hlt"@ })
}
pub open spec fn start_key(p: PreView) -> String { choose|s: String| #[trigger] p.lmap.contains_key(s) && s@ == "start"@ }
pub open spec fn ah_ok(which: u8, ah: u8) -> bool {
    (which == 0x10 && (ah == 0xA || ah == 0x13)) || (which == 0x21 && (ah == 1 || ah == 2 || ah == 0xA))
}
pub open spec fn b2i(b: bool) -> int { if b { 1 } else { 0 } }
pub open spec fn is_int3(e: ExecEv) -> bool { e.res == Some(State::INT(3)) }
// ---- the monitors (t: the trace BEFORE the event)
/// C08: the line executed is line `cur` of the emitted program, or the final hlt the driver appends
pub open spec fn m_line(t: &Trace, cur: int, line: Seq<char>) -> bool { 0 <= cur <= t.pre.code.len() && line == code_hlt(t.pre)[cur] }
/// C08 / C12: the first instruction is the one the code label `start` denotes, and runs with DS = 0
pub open spec fn m_first(t: &Trace, cur: int, ds: u16) -> bool { t.execs.len() == 0 ==> cur == t.pre.lmap[start_key(t.pre)].map && ds == 0 }
/// C08: nothing is executed after HLT (written, or the appended one when execution runs past the last instruction) or a reported error
pub open spec fn m_after(t: &Trace) -> bool { t.execs.len() > 0 ==> t.execs.last().res != Some(State::HALT) && t.execs.last().res.is_some() }
/// C18: nothing is executed after INT 0, an unknown interrupt or a service with an unsupported AH
pub open spec fn m_after_int(t: &Trace) -> bool { t.execs.len() > 0 ==> (t.execs.last().res matches Some(State::INT(n)) ==> n == 3 || ah_ok(n, t.execs.last().ah_after)) }
/// C08: a jump answer continues at its target
pub open spec fn m_jmp(t: &Trace, cur: int) -> bool { t.execs.len() > 0 ==> (t.execs.last().res matches Some(State::JMP(n)) ==> cur == n) }
/// C08: otherwise execution continues in order
pub open spec fn m_next(t: &Trace, cur: int) -> bool { t.execs.len() > 0 && t.execs.last().res == Some(State::NEXT) ==> cur == t.execs.last().idx + 1 }
/// C07: REPEAT re-issues the same line
pub open spec fn m_repeat(t: &Trace, cur: int) -> bool { t.execs.len() > 0 && t.execs.last().res == Some(State::REPEAT) ==> cur == t.execs.last().idx }
/// C17: a print line was handed to the print reader (once, that very line) before the following line runs
pub open spec fn m_print(t: &Trace, cur: int) -> bool {
    t.execs.len() > 0 && t.execs.last().res == Some(State::PRINT) ==> cur == t.execs.last().idx + 1
        && t.code_prints.len() > 0 && t.code_prints.last().at == t.execs.len() && t.code_prints.last().line == t.execs.last().line
}
/// C18: after INT the following line runs, and 10h / 21h were served (once, with the AH of that moment) before
pub open spec fn m_int(t: &Trace, cur: int) -> bool {
    t.execs.len() > 0 ==> (t.execs.last().res matches Some(State::INT(m)) ==> cur == t.execs.last().idx + 1
        && ((m == 0x10 || m == 0x21) ==> t.svcs.len() > 0 && t.svcs.last().at == t.execs.len() && t.svcs.last().which == m && t.svcs.last().ah == t.execs.last().ah_after))
}
/// C20: exactly one prompt session precedes an instruction iff stepping is active for it (interpreted mode or trap flag, and it
/// is an instruction of the program, not the appended hlt), plus one after each INT 3
pub open spec fn m_prompts(t: &Trace, cur: int, tf: bool, interpreted: bool) -> bool {
    t.prompts.len() == (if t.execs.len() > 0 { t.execs.last().prompts_before + b2i(is_int3(t.execs.last())) } else { 0 })
        + b2i((interpreted || tf) && cur < t.pre.code.len())
}
/// C12: all data lines were loaded, in order, before the first instruction
pub open spec fn m_data(t: &Trace) -> bool {
    t.execs.len() == 0 ==> t.datas.len() == t.pre.data.len() && forall|k: int| 0 <= k < t.datas.len() ==> (#[trigger] t.datas[k]).okay
}
/// C12: a loader call gets the next data line, a counter that continues the previous call's (0 at first), succeeds, and happens
/// before any instruction; the first one gets a fresh machine
pub open spec fn m_load(t: &Trace, ctr_in: usize, line: Seq<char>, ok: bool, fresh: bool) -> bool {
    t.execs.len() == 0 && t.datas.len() < t.pre.data.len() && line == t.pre.data[t.datas.len() as int]@ && ok
    && ctr_in == (if t.datas.len() > 0 { t.datas.last().ctr_out } else { 0 }) && (t.datas.len() == 0 ==> fresh)
    && (t.datas.len() > 0 ==> t.datas.last().okay)
}
pub open spec fn all_exec_ok(t: &Trace, f: spec_fn(ExecEv) -> bool) -> bool { forall|k: int| 0 <= k < t.execs.len() ==> f(#[trigger] t.execs[k]) }
pub open spec fn empty_trace(t: &Trace) -> bool {
    t.pre_calls == 0 && t.datas.len() == 0 && t.execs.len() == 0 && t.code_prints.len() == 0 && t.prompt_prints.len() == 0 && t.svcs.len() == 0 && t.prompts.len() == 0
}

// ---------------------------------------------------------------- the machine and the fresh-machine state
pub open spec fn fresh_machine(vm: &VM) -> bool {
    vm.arch.ax == 0 && vm.arch.bx == 0 && vm.arch.cx == 0 && vm.arch.dx == 0 && vm.arch.si == 0 && vm.arch.di == 0
    && vm.arch.bp == 0 && vm.arch.sp == 0 && vm.arch.ip == 0 && vm.arch.ds == 0 && vm.arch.es == 0 && vm.arch.ss == 0
    && vm.arch.cs == 0xFFFF && vm.arch.flag == 0xF000 && forall|a: int| 0 <= a < 0x100000 ==> vm.mem[a] == 0
}
impl VM {
    // assumed contract, discharged by Kani unit l0_vm_new
    #[verifier::external_body]
    pub fn new() -> (r: VM)
        ensures fresh_machine(&r),
    { unimplemented!() }
}
// assumed contract, discharged by Kani unit l0_get_flag_state
#[verifier::external_body]
pub fn get_flag_state(reg: u16, flag: Flags) -> (r: bool)
    ensures flag is TRAP ==> r == ((reg / 256) % 2 == 1),
{ unimplemented!() }
pub enum ByteReg { AL, AH, BL, BH, CL, CH, DL, DH }
// assumed contract, discharged by Kani unit l0_get_byte_reg
#[verifier::external_body]
pub fn get_byte_reg(vm: &VM, reg: ByteReg) -> (r: u8)
    ensures reg is AH ==> r == vm.arch.ax / 256,
{ unimplemented!() }

// ---------------------------------------------------------------- text helpers (not modelled beyond these facts)
pub struct Regex;
pub struct RegexResult;
pub struct Replaced;
impl Regex {
    // assumed: the literal pattern compiles
    #[verifier::external_body]
    pub fn new(p: &str) -> (r: RegexResult) { unimplemented!() }
    #[verifier::external_body]
    pub fn replace_all(&self, text: &String, rep: &str) -> (r: Replaced) { unimplemented!() }
}
impl RegexResult {
    #[verifier::external_body]
    pub fn unwrap(self) -> (r: Regex) { unimplemented!() }
}
impl Replaced {
    #[verifier::external_body]
    pub fn to_string(&self) -> (r: String) { unimplemented!() }
}
pub struct LexerHelper;
/// length of the text the helper was built from
pub uninterp spec fn lh_len(lh: &LexerHelper) -> int;
// stub contract, DISCHARGED in unit `lexer` (contracts/verus/lexer.rs: the real get_err_pos and LexerHelper::get_line, any number of newlines,
// err_line := newlines before pos + 1, lh_len := input_len); what stays assumed is LexerHelper::new's result (bounded Kani unit b_lexer_new)
/// (1-based) number of the line of the text that contains position `pos`
pub uninterp spec fn err_line(l: &LexerHelper, pos: int) -> int;
#[verifier::external_body]
pub fn get_err_pos(l: &LexerHelper, pos: usize) -> (r: (usize, usize, usize))
    ensures r.1 <= r.2, pos <= lh_len(l) ==> r.1 <= pos <= r.2, r.0 == err_line(l, pos as int),
{ unimplemented!() }

pub uninterp spec fn trim_of(s: Seq<char>) -> Seq<char>;
pub uninterp spec fn lower_of(s: Seq<char>) -> Seq<char>;
/// the text a prompt line stands for
pub open spec fn norm(line: Seq<u8>) -> Seq<char> { lower_of(trim_of(chars_of(line))) }
pub assume_specification [str::trim] (s: &str) -> (r: &str)
    ensures r@ == trim_of(s@);
pub assume_specification [str::to_ascii_lowercase] (s: &str) -> (r: String)
    ensures r@ == lower_of(s@);
pub assume_specification [std::process::exit] (code: i32) -> !
    ensures false;

// ---------------------------------------------------------------- what a valid assembler output looks like (ASSUMED of `preprocess`)
pub open spec fn is_code(l: Label) -> bool { l.r#type is CODE }
/// every jump target / procedure entry / return position is an index of the emitted list or one past it
pub open spec fn targets_ok(c: &InterpreterContext, bound: int) -> bool {
    (forall|s: String| #[trigger] c.label_map@.contains_key(s) && is_code(c.label_map@[s]) ==> c.label_map@[s].map <= bound)
    && (forall|s: String| #[trigger] c.fn_map@.contains_key(s) ==> c.fn_map@[s] <= bound)
    && (forall|k: int| 0 <= k < c.call_stack@.len() ==> #[trigger] c.call_stack@[k] <= bound)
}
// positions are byte offsets into the source text: assumed below 2^31 (Verus leaves the width of usize open, 32 or 64 bits)
pub const MAXPOS: usize = 0x7FFF_0000;
pub struct PErr;
// ASSUMED contract of the assembler as a whole (nothing discharges the whole-parse induction; per production the
// emission / label / mapper contracts of unit `assembler` establish exactly these facts):
//   every emitted instruction has a source-map entry; label and procedure values are indices <= the number of emitted
//   instructions; positions are offsets into the text (below isize::MAX)
#[verifier::external_body]
pub fn preprocess(input: &String, Tracked(tr): Tracked<&mut Trace>) -> (r: Result<(LexerHelper, PreprocessorContext, PreprocessorOutput), PErr>)
    ensures
        final(tr).pre_calls == old(tr).pre_calls + 1,
        final(tr).datas == old(tr).datas, final(tr).execs == old(tr).execs, final(tr).code_prints == old(tr).code_prints,
        final(tr).prompt_prints == old(tr).prompt_prints, final(tr).svcs == old(tr).svcs, final(tr).prompts == old(tr).prompts,
        final(tr).pre.ok == r.is_ok(),
        r.is_ok() ==> ({
            let (lh, pctx, out) = r->Ok_0;
            &&& final(tr).pre.lmap == pctx.label_map@ && final(tr).pre.und == pctx.undefined_labels@
            &&& final(tr).pre.code == out.code@ && final(tr).pre.data == out.data@
            &&& out.code@.len() < usize::MAX - 1
            &&& forall|k: usize| k < out.code@.len() ==> #[trigger] pctx.mapper.v_map().contains_key(k) && pctx.mapper.v_map()[k] <= lh_len(&lh)
            &&& lh_len(&lh) <= MAXPOS
            &&& forall|p: (usize, String)| #[trigger] pctx.undefined_labels@.contains(p) ==> p.0 <= lh_len(&lh)
            &&& forall|s: String| #[trigger] pctx.label_map@.contains_key(s) && is_code(pctx.label_map@[s]) ==> pctx.label_map@[s].map <= out.code@.len()
            &&& forall|s: String| #[trigger] pctx.fn_map@.contains_key(s) ==> pctx.fn_map@[s] <= out.code@.len()
        }),
{ unimplemented!() }

/// the other parts of the trace are untouched
pub open spec fn same_pre(a: &Trace, b: &Trace) -> bool { a.pre == b.pre && a.pre_calls == b.pre_calls }
pub struct DataParser;
pub struct DErr;
impl DataParser {
    #[verifier::external_body]
    pub fn new() -> (r: DataParser) { unimplemented!() }
    // the loader productions are under contract in unit `loader`; here only the call is recorded
    #[verifier::external_body]
    pub fn parse(&self, vm: &mut VM, ctr: &mut usize, line: &String, Tracked(tr): Tracked<&mut Trace>) -> (r: Result<(), DErr>)
        ensures
            final(tr).datas == old(tr).datas.push(DataEv { ctr_in: *old(ctr), ctr_out: *final(ctr), line: line@, ok: r.is_ok(),
                                                            okay: m_load(old(tr), *old(ctr), line@, r.is_ok(), fresh_machine(old(vm))) }),
            same_pre(final(tr), old(tr)), final(tr).execs == old(tr).execs, final(tr).code_prints == old(tr).code_prints,
            final(tr).prompt_prints == old(tr).prompt_prints, final(tr).svcs == old(tr).svcs, final(tr).prompts == old(tr).prompts,
    { unimplemented!() }
}

pub struct Interpreter;
pub struct IErr;
pub open spec fn res_of(r: Result<State, IErr>) -> Option<State> { match r { Ok(s) => Some(s), Err(_) => None } }
impl Interpreter {
    #[verifier::external_body]
    pub fn new() -> (r: Interpreter) { unimplemented!() }
    // the instruction productions are under contract in the Kani units and in unit `transfer`; here the call is recorded.
    // ASSUMED of the interpreter as a whole: a jump target it returns is a label value, a procedure entry or a return
    // position = (index of a CALL) + 1 (unit `transfer`: it_call / it_ret / it_jumps_loops), the symbol tables are
    // not modified, and the line "hlt" is answered with HALT (Kani unit h_control_hlt)
    #[verifier::external_body]
    pub fn parse(&self, current: usize, vm: &mut VM, context: &mut InterpreterContext, line: &String,
                 Tracked(tr): Tracked<&mut Trace>, Tracked(log): Tracked<&mut OutLog>, Ghost(interpreted): Ghost<bool>) -> (r: Result<State, IErr>)
        ensures
            final(tr).execs == old(tr).execs.push(ExecEv {
                idx: current as int, line: line@, ds_before: old(vm).arch.ds, tf_before: (old(vm).arch.flag / 256) % 2 == 1, res: res_of(r),
                ah_after: (final(vm).arch.ax / 256) as u8, log_len: old(log).entries.len() as int, prompts_before: old(tr).prompts.len() as int,
                ok_line: m_line(old(tr), current as int, line@), ok_first: m_first(old(tr), current as int, old(vm).arch.ds),
                ok_after: m_after(old(tr)), ok_after_int: m_after_int(old(tr)), ok_jmp: m_jmp(old(tr), current as int), ok_next: m_next(old(tr), current as int),
                ok_repeat: m_repeat(old(tr), current as int), ok_print: m_print(old(tr), current as int), ok_int: m_int(old(tr), current as int),
                ok_prompts: m_prompts(old(tr), current as int, (old(vm).arch.flag / 256) % 2 == 1, interpreted), ok_data: m_data(old(tr)) }),
            same_pre(final(tr), old(tr)), final(tr).datas == old(tr).datas, final(tr).code_prints == old(tr).code_prints,
            final(tr).prompt_prints == old(tr).prompt_prints, final(tr).svcs == old(tr).svcs, final(tr).prompts == old(tr).prompts,
            final(log).entries == old(log).entries, final(log).lits == old(log).lits,
            final(context).label_map@ == old(context).label_map@, final(context).fn_map@ == old(context).fn_map@,
            forall|bound: int| #[trigger] targets_ok(old(context), bound) && current < bound ==> targets_ok(final(context), bound)
                && (r matches Ok(State::JMP(n)) ==> n <= bound),
            line@ == "hlt"@ ==> r == Ok::<State, IErr>(State::HALT),
    { unimplemented!() }
}

pub struct PrintParser;
pub struct PrErr;
impl PrintParser {
    #[verifier::external_body]
    pub fn new() -> (r: PrintParser) { unimplemented!() }
    // the print productions are under contract in unit `printer` (what is shown, machine read-only); here the call is recorded
    #[verifier::external_body]
    pub fn parse(&self, vm: &VM, line: &String, Tracked(tr): Tracked<&mut Trace>, Tracked(log): Tracked<&mut OutLog>, Ghost(from_prompt): Ghost<bool>) -> (r: Result<(), PrErr>)
        ensures
            !from_prompt ==> final(tr).prompt_prints == old(tr).prompt_prints && final(tr).code_prints == old(tr).code_prints.push(PrintEv {
                line: line@, at: old(tr).execs.len() as int,
                // C17: only for a line the interpreter answered PRINT to, that line, once
                justified: old(tr).execs.len() > 0 && old(tr).execs.last().res == Some(State::PRINT) && line@ == old(tr).execs.last().line
                    && (old(tr).code_prints.len() > 0 ==> old(tr).code_prints.last().at < old(tr).execs.len()) }),
            from_prompt ==> final(tr).code_prints == old(tr).code_prints && final(tr).prompt_prints == old(tr).prompt_prints.push(PrintEv {
                line: line@, at: old(tr).execs.len() as int, justified: true }),
            same_pre(final(tr), old(tr)), final(tr).datas == old(tr).datas,
            final(tr).execs == old(tr).execs, final(tr).svcs == old(tr).svcs, final(tr).prompts == old(tr).prompts,
            extends(old(log), final(log)),
    { unimplemented!() }
}

/// the output only grows
pub open spec fn extends(a: &OutLog, b: &OutLog) -> bool {
    b.entries.len() >= a.entries.len() && b.lits.len() >= a.lits.len() && forall|i: int| 0 <= i < a.lits.len() ==> b.lits[i] == a.lits[i]
}
/// a pending input line holds at least its newline or one character
pub open spec fn lines_ok(inp: &InLog) -> bool { forall|i: int| 0 <= i < inp.lines.len() ==> (#[trigger] inp.lines[i]).len() > 0 }
/// C18: a service is called only for the INT the interpreter just answered, with a supported AH (the AH of that moment), once
pub open spec fn m_svc(t: &Trace, which: u8, ah: u8) -> bool {
    t.execs.len() > 0 && t.execs.last().res == Some(State::INT(which)) && ah == t.execs.last().ah_after && ah_ok(which, ah)
    && (t.svcs.len() > 0 ==> t.svcs.last().at < t.execs.len())
}
// int_13 / int_21 are under contract in unit `interrupts`; here the dispatch is recorded
#[verifier::external_body]
pub fn int_13(vm: &VM, ah: u8, Tracked(tr): Tracked<&mut Trace>, Tracked(log): Tracked<&mut OutLog>)
    ensures
        final(tr).svcs == old(tr).svcs.push(SvcEv { which: 0x10, ah, at: old(tr).execs.len() as int, justified: m_svc(old(tr), 0x10, ah) }),
        same_pre(final(tr), old(tr)), final(tr).datas == old(tr).datas, final(tr).execs == old(tr).execs,
        final(tr).code_prints == old(tr).code_prints, final(tr).prompt_prints == old(tr).prompt_prints, final(tr).prompts == old(tr).prompts,
        extends(old(log), final(log)),
{ unimplemented!() }
#[verifier::external_body]
pub fn int_21(vm: &mut VM, ah: u8, Tracked(tr): Tracked<&mut Trace>, Tracked(log): Tracked<&mut OutLog>, Tracked(inp): Tracked<&mut InLog>)
    ensures
        final(tr).svcs == old(tr).svcs.push(SvcEv { which: 0x21, ah, at: old(tr).execs.len() as int, justified: m_svc(old(tr), 0x21, ah) }),
        same_pre(final(tr), old(tr)), final(tr).datas == old(tr).datas, final(tr).execs == old(tr).execs,
        final(tr).code_prints == old(tr).code_prints, final(tr).prompt_prints == old(tr).prompt_prints, final(tr).prompts == old(tr).prompts,
        extends(old(log), final(log)),
        lines_ok(old(inp)) ==> lines_ok(final(inp)),
{ unimplemented!() }

// ---------------------------------------------------------------- the prompt
pub open spec fn is_next(c: Seq<char>) -> bool { c == "n"@ || c == "next"@ }
pub open spec fn is_quit(c: Seq<char>) -> bool { c == "q"@ || c == "quit"@ }
/// lines 0..k of the pending input are neither next nor quit: they are answered without leaving the prompt
pub open spec fn answered(lines: Seq<Seq<u8>>, k: int) -> bool {
    forall|i: int| 0 <= i < k ==> !is_next(norm(#[trigger] lines[i])) && !is_quit(norm(lines[i]))
}
/// the print reader was given lines 0..k as typed (trimmed, lower case), in order, with no instruction in between
pub open spec fn shown(t0: &Trace, t1: &Trace, lines: Seq<Seq<u8>>, k: int) -> bool {
    t1.prompt_prints.len() == t0.prompt_prints.len() + k
    && (forall|i: int| 0 <= i < t0.prompt_prints.len() ==> t1.prompt_prints[i] == t0.prompt_prints[i])
    && (forall|i: int| 0 <= i < k ==> #[trigger] t1.prompt_prints[t0.prompt_prints.len() + i] == PrintEv { line: norm(lines[i]), at: t0.execs.len() as int, justified: true })
}

pub open spec fn ui_frame(t0: &Trace, t1: &Trace) -> bool {
    t1.execs == t0.execs && t1.datas == t0.datas && t1.svcs == t0.svcs && t1.code_prints == t0.code_prints && same_pre(t1, t0) && t1.prompts == t0.prompts
}
/// k lines consumed so far, none of them next / quit, each handed to the print reader
pub open spec fn ui_progress(t0: &Trace, t1: &Trace, i0: &InLog, i1: &InLog) -> bool {
    let k = t1.prompt_prints.len() - t0.prompt_prints.len();
    &&& 0 <= k <= i0.lines.len()
    &&& answered(i0.lines, k)
    &&& shown(t0, t1, i0.lines, k)
    &&& i1.lines =~= i0.lines.skip(k)
}
//@fn src/driver/user_interface.rs user_interface
//@contract
//@ghost printer.parse :: Tracked(verif_tr), Tracked(verif_log), Ghost(true)
    requires lines_ok(old(verif_in)),
    ensures
        // a prompt session executes nothing: no instruction, no loader call, no service, no print line of the program
        ui_frame(old(verif_tr), final(verif_tr)), //# C17,C20 prompt.executes_nothing
        // it shows the prompt at least once
        final(verif_log).lits.len() > old(verif_log).lits.len() && final(verif_log).lits[old(verif_log).lits.len() as int] == @LIT(">>> "), //# C20 prompt.is_shown
        extends(old(verif_log), final(verif_log)),
        lines_ok(final(verif_in)),
        // it returns (a read error aside) exactly at the first `n` / `next` line; every line before it went to the print reader
        ({
            let k = final(verif_tr).prompt_prints.len() - old(verif_tr).prompt_prints.len();
            &&& 0 <= k <= old(verif_in).lines.len()
            &&& answered(old(verif_in).lines, k)
            &&& shown(old(verif_tr), final(verif_tr), old(verif_in).lines, k)
            &&& (final(verif_in).lines == old(verif_in).lines.skip(k)
                 || (k < old(verif_in).lines.len() && is_next(norm(old(verif_in).lines[k])) && final(verif_in).lines == old(verif_in).lines.skip(k + 1)))
        }), //# C17,C20 prompt.print_commands_answered_next_leaves
//@loop 0
        invariant
            lines_ok(verif_in),
            ui_frame(old(verif_tr), verif_tr), //# C17,C20 prompt.loop_executes_nothing
            extends(old(verif_log), verif_log),
            verif_log.lits.len() > old(verif_log).lits.len() ==> verif_log.lits[old(verif_log).lits.len() as int] == @LIT(">>> "), //# C20 prompt.loop_shows_prompt_first
            ui_progress(old(verif_tr), verif_tr, old(verif_in), verif_in), //# C17,C20 prompt.loop_answers_print_commands_in_order
        // every turn of the prompt consumes one pending input line; at the end of input it must leave
        decreases verif_in.lines.len(), //# C20 prompt.terminates_at_end_of_input
//@end
//@end

// ---------------------------------------------------------------- the fetch-execute loop
pub open spec fn undefined(p: PreView, u: (usize, String)) -> bool { p.und.contains(u) && !p.lmap.contains_key(u.1) }
pub open spec fn some_undefined(p: PreView) -> bool { exists|u: (usize, String)| undefined(p, u) }
pub open spec fn start_ok(p: PreView) -> bool { has_key(p.lmap, "start"@) && is_code(p.lmap[start_key(p)]) }
pub open spec fn valid(p: PreView) -> bool { p.ok && !some_undefined(p) && start_ok(p) }
/// the set's own order (vstd: the order in which a BTreeSet is traversed)
pub open spec fn before(u: (usize, String), v: (usize, String)) -> bool { OrdSpec::cmp_spec(&&u, &&v) is Less }

/// the traversal of the ordered set is increasing, so the first undefined label met is the least undefined one
pub proof fn lemma_least_undefined(rem: Seq<&(usize, String)>, cur: int, und: Set<(usize, String)>, lmap: Map<String, Label>, u: (usize, String))
    requires
        vstd::std_specs::btree::increasing_seq(rem), vstd::laws_cmp::obeys_cmp::<&(usize, String)>(),
        0 <= cur < rem.len(), *rem[cur] == u, und.contains(u),
        forall|p: (usize, String)| und.contains(p) ==> exists|k: int| 0 <= k < rem.len() && *(#[trigger] rem[k]) == p,
        forall|k: int| 0 <= k < cur ==> lmap.contains_key((#[trigger] rem[k]).1),
    ensures
        !lmap.contains_key(u.1) ==> forall|v: (usize, String)| und.contains(v) && !lmap.contains_key(v.1) && v != u ==> before(u, v),
{
    if !lmap.contains_key(u.1) {
        assert forall|v: (usize, String)| und.contains(v) && !lmap.contains_key(v.1) && v != u implies before(u, v) by {
            let j = choose|j: int| 0 <= j < rem.len() && *rem[j] == v;
            assert(j > cur);
            assert(OrdSpec::cmp_spec(&rem[cur], &rem[j]) is Less);
        }
    }
}

// ---- the properties: every event's monitor flag holds
pub open spec fn p_line(t: &Trace) -> bool { forall|k: int| 0 <= k < t.execs.len() ==> (#[trigger] t.execs[k]).ok_line }
pub open spec fn p_first(t: &Trace) -> bool { forall|k: int| 0 <= k < t.execs.len() ==> (#[trigger] t.execs[k]).ok_first }
pub open spec fn p_after(t: &Trace) -> bool { forall|k: int| 0 <= k < t.execs.len() ==> (#[trigger] t.execs[k]).ok_after }
pub open spec fn p_after_int(t: &Trace) -> bool { forall|k: int| 0 <= k < t.execs.len() ==> (#[trigger] t.execs[k]).ok_after_int }
pub open spec fn p_jmp(t: &Trace) -> bool { forall|k: int| 0 <= k < t.execs.len() ==> (#[trigger] t.execs[k]).ok_jmp }
pub open spec fn p_next(t: &Trace) -> bool { forall|k: int| 0 <= k < t.execs.len() ==> (#[trigger] t.execs[k]).ok_next }
pub open spec fn p_repeat(t: &Trace) -> bool { forall|k: int| 0 <= k < t.execs.len() ==> (#[trigger] t.execs[k]).ok_repeat }
pub open spec fn p_print(t: &Trace) -> bool { forall|k: int| 0 <= k < t.execs.len() ==> (#[trigger] t.execs[k]).ok_print }
pub open spec fn p_int(t: &Trace) -> bool { forall|k: int| 0 <= k < t.execs.len() ==> (#[trigger] t.execs[k]).ok_int }
pub open spec fn p_prompts(t: &Trace) -> bool { forall|k: int| 0 <= k < t.execs.len() ==> (#[trigger] t.execs[k]).ok_prompts }
pub open spec fn p_data(t: &Trace) -> bool { forall|k: int| 0 <= k < t.execs.len() ==> (#[trigger] t.execs[k]).ok_data }
pub open spec fn p_code_prints(t: &Trace) -> bool { forall|k: int| 0 <= k < t.code_prints.len() ==> (#[trigger] t.code_prints[k]).justified }
pub open spec fn p_svcs(t: &Trace) -> bool { forall|k: int| 0 <= k < t.svcs.len() ==> (#[trigger] t.svcs[k]).justified }

impl CMDDriver {
#[verifier::exec_allows_no_decreases_clause]
#[verifier::loop_isolation(false)]
//@fn src/driver/driver.rs run
//@contract
//@ghost preprocess :: Tracked(verif_tr)
//@ghost data_parser.parse :: Tracked(verif_tr)
//@ghost interpreter.parse :: Tracked(verif_tr), Tracked(verif_log), Ghost(self.interpreted)
//@ghost printer.parse :: Tracked(verif_tr), Tracked(verif_log), Ghost(false)
//@ghost int_13 :: Tracked(verif_tr), Tracked(verif_log)
//@ghost int_21 :: Tracked(verif_tr), Tracked(verif_log), Tracked(verif_in)
//@ghost user_interface :: Tracked(verif_log), Tracked(verif_in), Tracked(verif_tr)
//@after user_interface :: proof { verif_tr.note_prompt(); }
//@after source_map.get :: proof { verif_ct.note_lookup((*($1)) as int, idx as int, *pos as int); }
//@after get_err_pos :: proof { verif_ct.note_cite(line as int, ($2) as int); }
//@after verif_io::out4 :: proof { assert(verif_log.entries.last()[2] == (*pos - start) as u64); } //# C16 check.undefined_label_message_gives_the_column_of_the_use_in_its_line
//@str l
//@before match lmap.get(l) { :: proof { assert(pctx.undefined_labels@.contains((*pos, *l))); lemma_least_undefined(verif_it.snapshot@.remaining(), verif_it.history@.len() as int, undefined_labels@, lmap@, (*pos, *l)); if !lmap@.contains_key(*l) { assert(undefined(verif_tr.pre, (*pos, *l))); } }
    requires
        vstd::std_specs::hash::obeys_key_model::<String>(),
        vstd::std_specs::btree::key_obeys_cmp_spec::<(usize, String)>(), vstd::laws_cmp::obeys_cmp::<&(usize, String)>(),
        empty_trace(old(verif_tr)), lines_ok(old(verif_in)), !old(verif_ct).has_lookup && old(verif_ct).lookups_ok && old(verif_ct).cites_ok,
    ensures
        final(verif_tr).pre_calls == 1, //# C19 run.assembles_once
        // an invalid program: nothing of it is loaded or executed, and something is reported
        !valid(final(verif_tr).pre) ==> final(verif_tr).execs.len() == 0 && final(verif_tr).datas.len() == 0 && final(verif_tr).svcs.len() == 0, //# C14 run.invalid_program_executes_nothing
        !valid(final(verif_tr).pre) ==> final(verif_log).entries.len() > old(verif_log).entries.len(), //# C14 run.invalid_program_is_reported
        // which undefined label is reported is a function of the set of undefined labels (the least in the set's order), not of a traversal order
        final(verif_tr).pre.ok && some_undefined(final(verif_tr).pre) ==> final(verif_log).entries.len() == old(verif_log).entries.len() + 1
            && exists|u: (usize, String)| undefined(final(verif_tr).pre, u)
                && (forall|v: (usize, String)| undefined(final(verif_tr).pre, v) && v != u ==> before(u, v))
                && final(verif_log).entries.last()[0] == verif_io::str_id_of(u.1@), //# C19,C14 run.reported_undefined_label_is_determined_by_the_program
        // the run as a whole (also when it ends)
        p_line(final(verif_tr)), //# C08 run.executes_lines_of_the_program_plus_final_hlt
        p_first(final(verif_tr)), //# C08,C12 run.begins_at_start_with_ds_0
        p_after(final(verif_tr)), //# C08 run.nothing_after_hlt_or_error
        p_after_int(final(verif_tr)), //# C18 run.nothing_after_int_0_or_unsupported_service
        p_jmp(final(verif_tr)) && p_next(final(verif_tr)), //# C08 run.jump_and_next_followed
        p_repeat(final(verif_tr)), //# C07 run.repeat_reissues_the_same_line
        p_print(final(verif_tr)) && p_code_prints(final(verif_tr)), //# C17 run.print_lines_go_to_the_print_reader_once
        p_int(final(verif_tr)) && p_svcs(final(verif_tr)), //# C18 run.supported_services_dispatched_once_with_ah
        p_data(final(verif_tr)), //# C12 run.data_loaded_in_order_into_fresh_machine_before_code
        p_prompts(final(verif_tr)), //# C20 run.one_prompt_per_instruction_iff_stepping_and_at_int3
        final(verif_ct).cites_ok && final(verif_ct).lookups_ok, //# C16,C20 run.messages_cite_the_line_of_the_instructions_own_source_position
        final(verif_tr).execs.len() > 0 && (final(verif_tr).execs.last().res matches Some(State::INT(m)) && (m == 0x10 || m == 0x21) && !ah_ok(m, final(verif_tr).execs.last().ah_after))
            ==> final(verif_log).entries.len() > final(verif_tr).execs.last().log_len, //# C18 run.unsupported_service_is_reported
//@loop 0
        invariant
            verif_tr.pre_calls == 1 && verif_tr.datas.len() == 0 && verif_tr.execs.len() == 0 && verif_tr.svcs.len() == 0 && verif_tr.code_prints.len() == 0 && verif_tr.prompts.len() == 0, //# C14 check.nothing_loaded_or_executed_while_checking_labels
            verif_log.entries == old(verif_log).entries, //# C14,C19 check.nothing_reported_before_the_first_undefined_label
            !verif_ct.has_lookup && verif_ct.lookups_ok && verif_ct.cites_ok,
            verif_it.history@.len() <= verif_it.snapshot@.remaining().len(),
            forall|k: int| 0 <= k < verif_it.history@.len() ==> verif_it.history@[k] == verif_it.snapshot@.remaining()[k],
            // the traversal meets every element of the set (vstd), and everything met so far is a defined label
            forall|p: (usize, String)| undefined_labels@.contains(p) ==> exists|k: int| 0 <= k < verif_it.snapshot@.remaining().len() && *(#[trigger] verif_it.snapshot@.remaining()[k]) == p,
            forall|k: int| 0 <= k < verif_it.history@.len() ==> lmap@.contains_key((#[trigger] verif_it.snapshot@.remaining()[k]).1), //# C14,C19 check.every_label_met_so_far_is_defined
//@end
//@loop 1
        invariant
            verif_tr.pre_calls == 1 && verif_tr.execs.len() == 0 && verif_tr.svcs.len() == 0 && verif_tr.code_prints.len() == 0 && verif_tr.prompts.len() == 0, //# C12 load.before_any_instruction
            verif_tr.pre.ok && verif_tr.pre.lmap == ictx.label_map@ && verif_tr.pre.und == undefined_labels@ && verif_tr.pre.code == out.code@ && verif_tr.pre.data == out.data@,
            !verif_ct.has_lookup && verif_ct.lookups_ok && verif_ct.cites_ok,
            verif_tr.datas.len() == verif_it.history@.len(), //# C12 load.one_call_per_data_line
            forall|k: int| 0 <= k < verif_tr.datas.len() ==> (#[trigger] verif_tr.datas[k]).okay, //# C12 load.next_line_continuing_counter_before_code
            verif_tr.datas.len() > 0 ==> ctr == verif_tr.datas.last().ctr_out, //# C12 load.counter_is_carried_over
            verif_tr.datas.len() == 0 ==> ctr == 0 && fresh_machine(&vm), //# C12 load.counter_starts_at_0_on_a_fresh_machine
            verif_log.entries.len() >= old(verif_log).entries.len(),
//@end
//@loop 2
        invariant
            // bookkeeping of the loop itself
            verif_tr.pre_calls == 1, //# C19 loop.assembles_once
            valid(verif_tr.pre), //# C14 loop.runs_only_valid_programs
            lines_ok(verif_in),
            verif_tr.pre.lmap == ictx.label_map@, //# C08 loop.symbol_table_is_the_assemblers
            verif_log.entries.len() >= old(verif_log).entries.len(),
            idx <= verif_tr.pre.code.len(), //# C08 loop.index_stays_inside_the_program
            out.code@.len() == verif_tr.pre.code.len() + 1, //# C08 loop.exactly_one_hlt_appended
            forall|k: int| 0 <= k < out.code@.len() ==> (#[trigger] out.code@[k])@ == code_hlt(verif_tr.pre)[k], //# C08 loop.code_is_the_assemblers_plus_final_hlt
            targets_ok(&ictx, verif_tr.pre.code.len() as int), //# C08 loop.jump_targets_stay_inside_the_program
            verif_tr.code_prints.len() > 0 ==> verif_tr.code_prints.last().at <= verif_tr.execs.len(), //# C17 loop.print_reader_calls_in_order
            verif_tr.svcs.len() > 0 ==> verif_tr.svcs.last().at <= verif_tr.execs.len(), //# C18 loop.service_calls_in_order
            // what the loop owes the next instruction (facts about the last event and idx)
            m_first(verif_tr, idx as int, vm.arch.ds), //# C08,C12 loop.begins_at_start_with_ds_0
            m_after(verif_tr), //# C08 loop.stops_after_hlt_or_error
            m_after_int(verif_tr), //# C18 loop.stops_after_int_0_or_unsupported_service
            m_jmp(verif_tr, idx as int), //# C08 loop.jump_continues_at_target
            m_next(verif_tr, idx as int), //# C08 loop.next_continues_at_following_line
            m_repeat(verif_tr, idx as int), //# C07 loop.repeat_reissues_the_same_line
            m_print(verif_tr, idx as int), //# C17 loop.print_line_goes_to_print_reader_then_next
            m_int(verif_tr, idx as int), //# C18 loop.supported_service_called_with_ah_then_next
            m_data(verif_tr), //# C12 loop.data_loaded_in_order_into_fresh_machine_before_code
            verif_tr.prompts.len() == (if verif_tr.execs.len() > 0 { verif_tr.execs.last().prompts_before + b2i(is_int3(verif_tr.execs.last())) } else { 0 }), //# C20 loop.no_prompt_other_than_stepping_and_int3
            // the properties so far
            p_line(verif_tr), //# C08 loop.executes_lines_of_the_program_plus_final_hlt
            p_first(verif_tr), //# C08,C12 loop.first_instruction_ok_so_far
            p_after(verif_tr), //# C08 loop.stops_ok_so_far
            p_after_int(verif_tr), //# C18 loop.stops_after_int_ok_so_far
            p_jmp(verif_tr) && p_next(verif_tr), //# C08 loop.jump_and_next_ok_so_far
            p_repeat(verif_tr), //# C07 loop.repeat_ok_so_far
            p_print(verif_tr), //# C17 loop.print_ok_so_far
            p_int(verif_tr), //# C18 loop.int_ok_so_far
            p_data(verif_tr), //# C12 loop.data_ok_so_far
            p_prompts(verif_tr), //# C20 loop.one_prompt_per_instruction_iff_stepping
            verif_ct.cites_ok && verif_ct.lookups_ok, //# C16,C20 loop.messages_cite_the_line_of_the_instructions_own_source_position
            p_code_prints(verif_tr), //# C17 loop.print_reader_only_for_print_lines_once
            p_svcs(verif_tr), //# C18 loop.service_only_for_int_with_supported_ah_once
//@end
//@end
}

} // verus!
fn main() {}
