// Unit `transfer` (C08, C14, C04): the interpreter's context-using productions, verbatim from the
// generated interpreter.rs: call / ret / jumps_loops / int / byte_label / word_label.
use std::collections::HashMap;

// the crate's error! macro (src/lib/lib.rs), verbatim
macro_rules! error {
    (  $s:expr,$e:expr,$err:expr ) => {{
        Err(ParseError::UnrecognizedToken {
            token: ($s, Token(0, ""), $e),
            expected: vec![$err],
        })
    }};
}

verus! {

pub struct Token(pub usize, pub &'static str);
pub enum ParseError {
    UnrecognizedToken { token: (usize, Token, usize), expected: Vec<String> },
    Other,
}

//@item src/lib/util/preprocessor_util.rs enum LabelType
//@item src/lib/util/preprocessor_util.rs struct Label
impl Label {
//@fn src/lib/util/preprocessor_util.rs get_type
//@contract
        ensures r == self.r#type,
//@end
}
//@item src/lib/util/interpreter_util.rs enum State
//@item src/lib/util/interpreter_util.rs struct Context

/// every jump target / procedure entry / return position is an index of the emitted list or one past it (the same predicate is
/// ASSUMED of `Interpreter::parse` as a whole in unit `driver`; here it is proved for the productions that produce targets)
pub open spec fn targets_ok(c: &Context, bound: int) -> bool {
    (forall|s: String| #[trigger] c.label_map@.contains_key(s) && c.label_map@[s].r#type is CODE ==> c.label_map@[s].map <= bound)
    && (forall|s: String| #[trigger] c.fn_map@.contains_key(s) ==> c.fn_map@[s] <= bound)
    && (forall|k: int| 0 <= k < c.call_stack@.len() ==> #[trigger] c.call_stack@[k] <= bound)
}

//@action src/lib/interpreter/interpreter.rs call = "call", name_string as it_call
//@contract
    requires vstd::std_specs::hash::obeys_key_model::<String>(), current < usize::MAX,
    ensures
        // CALL continues at the first instruction of the named procedure and remembers the instruction after itself
        old(context).fn_map@.contains_key(n) ==> r == Ok::<State, ParseError>(State::JMP(old(context).fn_map@[n]))
            && final(context).call_stack@ == old(context).call_stack@.push((current + 1) as usize),
        // something that is not a procedure is refused and nothing changes
        !old(context).fn_map@.contains_key(n) ==> r.is_err() && final(context).call_stack@ == old(context).call_stack@,
        final(context).fn_map@ == old(context).fn_map@, final(context).label_map@ == old(context).label_map@,
        forall|bound: int| #[trigger] targets_ok(old(context), bound) && current < bound ==> targets_ok(final(context), bound) && (r matches Ok(State::JMP(t)) ==> t <= bound), //# C08 it.targets_stay_inside_the_program
//@end

//@action src/lib/interpreter/interpreter.rs ret = "ret" as it_ret
//@contract
    ensures
        // RET resumes at the most recently remembered return position (LIFO: matching CALL for any nesting)
        old(context).call_stack@.len() > 0 ==> r == Ok::<State, ParseError>(State::JMP(old(context).call_stack@.last()))
            && final(context).call_stack@ == old(context).call_stack@.drop_last(),
        old(context).call_stack@.len() == 0 ==> r.is_err() && final(context).call_stack@ == old(context).call_stack@,
        final(context).fn_map@ == old(context).fn_map@, final(context).label_map@ == old(context).label_map@,
        forall|bound: int| #[trigger] targets_ok(old(context), bound) ==> targets_ok(final(context), bound) && (r matches Ok(State::JMP(t)) ==> t <= bound), //# C08 it.targets_stay_inside_the_program
//@end

//@action src/lib/interpreter/interpreter.rs jumps_loops = jumps_condition, name_string as it_jumps_loops
//@contract
    requires vstd::std_specs::hash::obeys_key_model::<String>(),
    ensures
        // a taken jump continues at the label's position, a jump that is not taken at the next instruction
        old(context).label_map@.contains_key(n) && old(context).label_map@[n].r#type is CODE ==>
            r == Ok::<State, ParseError>(if take { State::JMP(old(context).label_map@[n].map) } else { State::NEXT }),
        // jump to a data label or to an unknown label is refused
        old(context).label_map@.contains_key(n) && old(context).label_map@[n].r#type is DATA ==> r.is_err(),
        !old(context).label_map@.contains_key(n) ==> r.is_err(),
        final(context).fn_map@ == old(context).fn_map@, final(context).label_map@ == old(context).label_map@,
        final(context).call_stack@ == old(context).call_stack@,
        forall|bound: int| #[trigger] targets_ok(old(context), bound) ==> targets_ok(final(context), bound) && (r matches Ok(State::JMP(t)) ==> t <= bound), //# C08 it.targets_stay_inside_the_program
//@end

//@action src/lib/interpreter/interpreter.rs int = "int", u_byte_num as it_int
//@contract
    ensures
        (n == 3 || n == 0x10 || n == 0x21) ==> r == Ok::<State, ParseError>(State::INT(n)),
        !(n == 3 || n == 0x10 || n == 0x21) ==> r.is_err(),
//@end

//@action src/lib/interpreter/interpreter.rs byte_label = "byte", name_string as it_byte_label
//@contract
    requires vstd::std_specs::hash::obeys_key_model::<String>(),
        old(context).label_map@.contains_key(n) ==> old(context).label_map@[n].map <= 0xFFFF,   // the assembler hands out 16-bit data offsets
    ensures
        // a data label denotes phys(DS, offset of the label)
        old(context).label_map@.contains_key(n) && old(context).label_map@[n].r#type is DATA ==>
            r == Ok::<usize, ParseError>(((old(vm).arch.ds as int * 16 + old(context).label_map@[n].map) % 0x100000) as usize),
        old(context).label_map@.contains_key(n) && old(context).label_map@[n].r#type is CODE ==> r.is_err(),
        !old(context).label_map@.contains_key(n) ==> r.is_err(),
        final(vm).arch == old(vm).arch, final(vm).mem == old(vm).mem,
        final(context).label_map@ == old(context).label_map@, final(context).call_stack@ == old(context).call_stack@,
//@end

//@action src/lib/interpreter/interpreter.rs word_label = "word", name_string as it_word_label
//@contract
    requires vstd::std_specs::hash::obeys_key_model::<String>(),
        old(context).label_map@.contains_key(n) ==> old(context).label_map@[n].map <= 0xFFFF,   // the assembler hands out 16-bit data offsets
    ensures
        old(context).label_map@.contains_key(n) && old(context).label_map@[n].r#type is DATA ==>
            r == Ok::<usize, ParseError>(((old(vm).arch.ds as int * 16 + old(context).label_map@[n].map) % 0x100000) as usize),
        old(context).label_map@.contains_key(n) && old(context).label_map@[n].r#type is CODE ==> r.is_err(),
        !old(context).label_map@.contains_key(n) ==> r.is_err(),
        final(vm).arch == old(vm).arch, final(vm).mem == old(vm).mem,
        final(context).label_map@ == old(context).label_map@, final(context).call_stack@ == old(context).call_stack@,
//@end

} // verus!
fn main() {}
