// Unit `transfer` (C08, C14, C04): the interpreter's context-using productions, verbatim from the
// generated interpreter.rs: call / ret / jumps_loops / int / byte_label / word_label.
use std::collections::HashMap;

// the crate's error! macro (src/lib/lib.rs), verbatim
macro_rules! error {
    (  $s:expr,$e:expr,$err:expr ) => {{
        Err(ParseError::UnrecognizedToken {
            token: ($s, Token(0, ""), $e),
            expected: vec![$err],
        })
    }};
}

verus! {

pub struct Token(pub usize, pub &'static str);
pub enum ParseError {
    UnrecognizedToken { token: (usize, Token, usize), expected: Vec<String> },
    Other,
}

//@item src/lib/util/preprocessor_util.rs enum LabelType
//@item src/lib/util/preprocessor_util.rs struct Label
impl Label {
//@fn src/lib/util/preprocessor_util.rs get_type
//@contract
        ensures r == self.r#type,
//@end
}
//@item src/lib/util/interpreter_util.rs enum State
//@item src/lib/util/interpreter_util.rs struct Context

/// the call stack as a sequence of POSITIONS (mathematical integers): the contracts below speak about this view, so they do not
/// depend on the integer type the interpreter stores return positions in (a narrower type that truncates is refuted, not rejected)
pub open spec fn stack_view(c: &Context) -> Seq<int> { Seq::new(c.call_stack@.len(), |k: int| c.call_stack@[k] as int) }
/// the target of a jump outcome, as a position
pub open spec fn jmp_target(r: Result<State, ParseError>) -> int { match r { Ok(State::JMP(t)) => t as int, _ => -1 } }

/// every jump target / procedure entry / return position is an index of the emitted list or one past it (the same predicate is
/// ASSUMED of `Interpreter::parse` as a whole in unit `driver`; here it is proved for the productions that produce targets)
pub open spec fn targets_ok(c: &Context, bound: int) -> bool {
    (forall|s: String| #[trigger] c.label_map@.contains_key(s) && c.label_map@[s].r#type is CODE ==> c.label_map@[s].map <= bound)
    && (forall|s: String| #[trigger] c.fn_map@.contains_key(s) ==> c.fn_map@[s] <= bound)
    && (forall|k: int| 0 <= k < c.call_stack@.len() ==> #[trigger] c.call_stack@[k] <= bound)
}

//@action src/lib/interpreter/interpreter.rs call = "call", name_string as it_call
//@contract
    requires vstd::std_specs::hash::obeys_key_model::<String>(), current < usize::MAX,
    ensures
        // CALL continues at the first instruction of the named procedure and remembers the instruction after itself
        old(context).fn_map@.contains_key(n) ==> r == Ok::<State, ParseError>(State::JMP(old(context).fn_map@[n]))
            && stack_view(final(context)) == stack_view(old(context)).push(current + 1),
        // something that is not a procedure is refused and nothing changes
        !old(context).fn_map@.contains_key(n) ==> r.is_err() && stack_view(final(context)) == stack_view(old(context)),
        final(context).fn_map@ == old(context).fn_map@, final(context).label_map@ == old(context).label_map@,
        forall|bound: int| #[trigger] targets_ok(old(context), bound) && current < bound ==> targets_ok(final(context), bound) && (r matches Ok(State::JMP(t)) ==> t <= bound), //# C08 it.targets_stay_inside_the_program
//@end

//@action src/lib/interpreter/interpreter.rs ret = "ret" as it_ret
//@contract
    ensures
        // RET resumes at the most recently remembered return position (LIFO: matching CALL for any nesting)
        old(context).call_stack@.len() > 0 ==> (r matches Ok(State::JMP(_))) && jmp_target(r) == stack_view(old(context)).last()
            && stack_view(final(context)) == stack_view(old(context)).drop_last(),
        old(context).call_stack@.len() == 0 ==> r.is_err() && stack_view(final(context)) == stack_view(old(context)),
        final(context).fn_map@ == old(context).fn_map@, final(context).label_map@ == old(context).label_map@,
        forall|bound: int| #[trigger] targets_ok(old(context), bound) ==> targets_ok(final(context), bound) && (r matches Ok(State::JMP(t)) ==> t <= bound), //# C08 it.targets_stay_inside_the_program
//@end

//@action src/lib/interpreter/interpreter.rs jumps_loops = jumps_condition, name_string as it_jumps_loops
//@contract
    requires vstd::std_specs::hash::obeys_key_model::<String>(),
    ensures
        // a taken jump continues at the label's position, a jump that is not taken at the next instruction
        old(context).label_map@.contains_key(n) && old(context).label_map@[n].r#type is CODE ==>
            r == Ok::<State, ParseError>(if take { State::JMP(old(context).label_map@[n].map) } else { State::NEXT }),
        // jump to a data label or to an unknown label is refused
        old(context).label_map@.contains_key(n) && old(context).label_map@[n].r#type is DATA ==> r.is_err(),
        !old(context).label_map@.contains_key(n) ==> r.is_err(),
        final(context).fn_map@ == old(context).fn_map@, final(context).label_map@ == old(context).label_map@,
        final(context).call_stack@ == old(context).call_stack@,
        forall|bound: int| #[trigger] targets_ok(old(context), bound) ==> targets_ok(final(context), bound) && (r matches Ok(State::JMP(t)) ==> t <= bound), //# C08 it.targets_stay_inside_the_program
//@end

//@action src/lib/interpreter/interpreter.rs int = "int", u_byte_num as it_int
//@contract
    ensures
        (n == 3 || n == 0x10 || n == 0x21) ==> r == Ok::<State, ParseError>(State::INT(n)),
        !(n == 3 || n == 0x10 || n == 0x21) ==> r.is_err(),
//@end

//@action src/lib/interpreter/interpreter.rs byte_label = "byte", name_string as it_byte_label
//@contract
    requires vstd::std_specs::hash::obeys_key_model::<String>(),
        old(context).label_map@.contains_key(n) ==> old(context).label_map@[n].map <= 0xFFFF,   // the assembler hands out 16-bit data offsets
    ensures
        // a data label denotes phys(DS, offset of the label)
        old(context).label_map@.contains_key(n) && old(context).label_map@[n].r#type is DATA ==>
            r == Ok::<usize, ParseError>(((old(vm).arch.ds as int * 16 + old(context).label_map@[n].map) % 0x100000) as usize),
        old(context).label_map@.contains_key(n) && old(context).label_map@[n].r#type is CODE ==> r.is_err(),
        !old(context).label_map@.contains_key(n) ==> r.is_err(),
        final(vm).arch == old(vm).arch, final(vm).mem == old(vm).mem,
        final(context).label_map@ == old(context).label_map@, final(context).call_stack@ == old(context).call_stack@,
//@end

//@action src/lib/interpreter/interpreter.rs word_label = "word", name_string as it_word_label
//@contract
    requires vstd::std_specs::hash::obeys_key_model::<String>(),
        old(context).label_map@.contains_key(n) ==> old(context).label_map@[n].map <= 0xFFFF,   // the assembler hands out 16-bit data offsets
    ensures
        old(context).label_map@.contains_key(n) && old(context).label_map@[n].r#type is DATA ==>
            r == Ok::<usize, ParseError>(((old(vm).arch.ds as int * 16 + old(context).label_map@[n].map) % 0x100000) as usize),
        old(context).label_map@.contains_key(n) && old(context).label_map@[n].r#type is CODE ==> r.is_err(),
        !old(context).label_map@.contains_key(n) ==> r.is_err(),
        final(vm).arch == old(vm).arch, final(vm).mem == old(vm).mem,
        final(context).label_map@ == old(context).label_map@, final(context).call_stack@ == old(context).call_stack@,
//@end

// ============================================================================== C08: CALL / RET nesting
// Contracts of the interpreter productions (Verus unit `transfer`): `call` pushes current+1 on the call stack,
// `ret` pops the most recent entry and continues there.  Lifted to histories: in any run in which no RET finds
// the stack empty, a RET that closes a well-nested stretch resumes right after the CALL that opened it.
pub enum CallOp { Call(int), Ret }   // Call(p): executed at position p - 1, i.e. pushes p

pub open spec fn run_calls(stack: Seq<int>, ops: Seq<CallOp>) -> Seq<int>
    decreases ops.len()
{
    if ops.len() == 0 { stack } else {
        match ops[0] {
            CallOp::Call(p) => run_calls(stack.push(p), ops.drop_first()),
            CallOp::Ret => if stack.len() == 0 { stack } else { run_calls(stack.drop_last(), ops.drop_first()) },
        }
    }
}
/// nesting depth of a stretch, None when a RET would have no partner inside the stretch
pub open spec fn depth(ops: Seq<CallOp>, d: int) -> Option<int>
    decreases ops.len()
{
    if ops.len() == 0 { Some(d) } else {
        match ops[0] {
            CallOp::Call(_) => depth(ops.drop_first(), d + 1),
            CallOp::Ret => if d == 0 { None } else { depth(ops.drop_first(), d - 1) },
        }
    }
}
/// a stretch that never returns below its own starting depth and ends `k` levels deeper leaves everything that
/// was on the stack before it untouched
pub proof fn lemma_nested_keeps_stack(base: Seq<int>, extra: Seq<int>, ops: Seq<CallOp>)
    requires depth(ops, extra.len() as int) is Some,
    ensures
        run_calls(base + extra, ops).len() == base.len() + depth(ops, extra.len() as int)->0,
        run_calls(base + extra, ops).subrange(0, base.len() as int) == base,
    decreases ops.len()
{
    if ops.len() > 0 {
        match ops[0] {
            CallOp::Call(p) => {
                assert((base + extra).push(p) == base + extra.push(p));
                lemma_nested_keeps_stack(base, extra.push(p), ops.drop_first());
            }
            CallOp::Ret => {
                assert(extra.len() > 0);
                assert((base + extra).drop_last() == base + extra.drop_last());
                lemma_nested_keeps_stack(base, extra.drop_last(), ops.drop_first());
            }
        }
    } else {
        assert((base + extra).subrange(0, base.len() as int) == base);
    }
}
/// CALL at position p-1, any balanced stretch (procedures calling procedures to any depth), then RET:
/// the RET pops exactly p, i.e. execution resumes immediately after the matching CALL.
pub proof fn lemma_ret_resumes_after_matching_call(stack: Seq<int>, p: int, inner: Seq<CallOp>)
    requires depth(inner, 0) == Some(0int),
    ensures
        run_calls(stack.push(p), inner) == stack.push(p),
        run_calls(stack.push(p), inner).last() == p,
{
    lemma_nested_keeps_stack(stack.push(p), Seq::<int>::empty(), inner);
    assert(stack.push(p) + Seq::<int>::empty() == stack.push(p));
    let r = run_calls(stack.push(p), inner);
    assert(r.len() == stack.len() + 1);
    assert(r.subrange(0, r.len() as int) == r);
}


/// the call stack as the lemma sees it

// ---- bridges: the lemma's step function `run_calls` is not a restatement by hand any more -- each bridge CALLS the real production
// (its contract, checked above) and proves that its effect on the call stack is exactly one `run_calls` step.
pub fn bridge_call(current: usize, vm: &mut VM, context: &mut Context, n: String) -> (r: Result<State, ParseError>)
    requires vstd::std_specs::hash::obeys_key_model::<String>(), current < usize::MAX, old(context).fn_map@.contains_key(n),
    ensures
        r == Ok::<State, ParseError>(State::JMP(old(context).fn_map@[n])),
        stack_view(final(context)) == run_calls(stack_view(old(context)), seq![CallOp::Call(current + 1)]), //# C08 bridge.call_is_one_step_of_the_nesting_lemma
{
    let ghost s0 = stack_view(context);
    let r = it_call(current, vm, context, 0, n, 0);
    proof {
        let ops = seq![CallOp::Call((current + 1) as int)];
        assert(ops.drop_first() =~= Seq::<CallOp>::empty());
        assert(run_calls(s0.push((current + 1) as int), ops.drop_first()) == s0.push((current + 1) as int));
        assert(stack_view(context) =~= s0.push((current + 1) as int));
    }
    r
}
pub fn bridge_ret(current: usize, vm: &mut VM, context: &mut Context) -> (r: Result<State, ParseError>)
    requires old(context).call_stack@.len() > 0,
    ensures
        (r matches Ok(State::JMP(_))) && jmp_target(r) == stack_view(old(context)).last(),
        stack_view(final(context)) == run_calls(stack_view(old(context)), seq![CallOp::Ret]), //# C08 bridge.ret_is_one_step_of_the_nesting_lemma
{
    let ghost s0 = stack_view(context);
    let r = it_ret(current, vm, context, 0, 0);
    proof {
        let ops = seq![CallOp::Ret];
        assert(ops.drop_first() =~= Seq::<CallOp>::empty());
        assert(s0.len() > 0);
        assert(run_calls(s0.drop_last(), ops.drop_first()) == s0.drop_last());
        assert(stack_view(context) =~= s0.drop_last());
    }
    r
}

} // verus!
fn main() {}
