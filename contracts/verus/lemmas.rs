// Unit `lemmas` (C05, C07, C12): L4 lemmas over the CONTRACTS of the units above (no extracted code).
// Each `*_step` / `push` / `pop` spec function below restates, clause by clause, a contract that is
// machine-checked on the real code by the named Kani / Verus units; the lemmas are the inductions that lift
// those single-call contracts to the history-level statements of the properties.
verus! {

// =================================================================================== C07: REP
// The state the REP protocol runs on is the machine itself (`VM`: registers, flags, 1 MB memory); the string body is an ARBITRARY
// function of the whole machine that leaves CX alone (the L1 frame contract of the ten string functions, Kani units c_movs_* ..
// c_scas_*).  The step function below is NOT a restatement by hand: the three bridges at the end of this section are the REAL
// productions `string = "rep"|"repz"|"repnz", string_instructions` (interpreter.rs, verbatim but for rewrite R17) with
// `step(..)` as their postcondition.
//@item src/lib/util/interpreter_util.rs enum State
//@item src/lib/arch.rs const FLAG_ZERO
pub enum Out { Next, Repeat }
#[derive(PartialEq, Eq)]
pub enum Prefix { Rep, Repe, Repne }

pub open spec fn zf(s: VM) -> bool { s.arch.flag & FLAG_ZERO != 0 }
pub open spec fn dec_cx(s: VM) -> VM { VM { arch: i8086 { cx: (s.arch.cx - 1) as u16, ..s.arch }, mem: s.mem } }

/// L1 frame contract of a string body (units c_movs_* .. c_scas_*): CX is never changed.
pub open spec fn body_ok(body: spec_fn(VM) -> VM) -> bool { forall|s: VM| #[trigger] body(s).arch.cx == s.arch.cx }

/// One issue of the prefixed line (= the postcondition of the three real productions, see the bridges):
///   CX = 0  : body not executed, machine unchanged, NEXT
///   CX > 0  : body exactly once, then CX-1; REPEAT (REPE/REPNE: NEXT when the body's ZF stops it)
pub open spec fn step(p: Prefix, body: spec_fn(VM) -> VM, s: VM) -> (VM, Out) {
    if s.arch.cx == 0 { (s, Out::Next) } else {
        let b = body(s);
        let go = match p { Prefix::Rep => true, Prefix::Repe => zf(b), Prefix::Repne => !zf(b) };
        (dec_cx(b), if go { Out::Repeat } else { Out::Next })
    }
}

/// The driver's part (src/driver/driver.rs, `State::REPEAT => {}`): the same line is issued again until
/// the outcome is not REPEAT (an obligation of unit `driver`).  Returns the final machine and the number of times the body ran.
pub open spec fn drive(p: Prefix, body: spec_fn(VM) -> VM, s: VM, fuel: nat) -> (VM, nat)
    decreases fuel
{
    if fuel == 0 { (s, 0) } else {
        let (s2, o) = step(p, body, s);
        match o {
            Out::Next => (s2, if s.arch.cx == 0 { 0 } else { 1 }),
            Out::Repeat => { let (s3, n) = drive(p, body, s2, (fuel - 1) as nat); (s3, n + 1) }
        }
    }
}

/// body applied n times (CX untouched by it, decremented by the protocol)
pub open spec fn times(body: spec_fn(VM) -> VM, s: VM, n: nat) -> VM
    decreases n
{
    if n == 0 { s } else { times(body, dec_cx(body(s)), (n - 1) as nat) }
}

/// REP: the body executes exactly CX times (not at all when CX = 0) and CX ends at 0.
pub proof fn lemma_rep_exactly_cx_times(body: spec_fn(VM) -> VM, s: VM)
    requires body_ok(body),
    ensures
        drive(Prefix::Rep, body, s, (s.arch.cx + 1) as nat).1 == s.arch.cx,
        drive(Prefix::Rep, body, s, (s.arch.cx + 1) as nat).0.arch.cx == 0,
        drive(Prefix::Rep, body, s, (s.arch.cx + 1) as nat).0 == times(body, s, s.arch.cx as nat),
    decreases s.arch.cx
{
    if s.arch.cx > 0 {
        let s2 = dec_cx(body(s));
        assert(s2.arch.cx == s.arch.cx - 1);
        lemma_rep_exactly_cx_times(body, s2);
    }
}

/// REPE / REPNE: the body executes k <= CX times, CX ends at CX0 - k, and either k = CX0 or the k-th
/// execution is the first one whose comparison stopped the repetition.
pub proof fn lemma_repe_repne(p: Prefix, body: spec_fn(VM) -> VM, s: VM)
    requires body_ok(body), p != Prefix::Rep,
    ensures
        drive(p, body, s, (s.arch.cx + 1) as nat).1 <= s.arch.cx,
        drive(p, body, s, (s.arch.cx + 1) as nat).0.arch.cx == s.arch.cx - drive(p, body, s, (s.arch.cx + 1) as nat).1,
        drive(p, body, s, (s.arch.cx + 1) as nat).0 == times(body, s, drive(p, body, s, (s.arch.cx + 1) as nat).1),
        // stopped early only because the last comparison said so
        drive(p, body, s, (s.arch.cx + 1) as nat).1 < s.arch.cx ==> drive(p, body, s, (s.arch.cx + 1) as nat).1 > 0
            && (zf(drive(p, body, s, (s.arch.cx + 1) as nat).0) == (p == Prefix::Repne)),
    decreases s.arch.cx
{
    if s.arch.cx > 0 {
        let b = body(s);
        let s2 = dec_cx(b);
        assert(s2.arch.cx == s.arch.cx - 1);
        assert(zf(s2) == zf(b));
        lemma_repe_repne(p, body, s2);
        let go = match p { Prefix::Rep => true, Prefix::Repe => zf(b), Prefix::Repne => !zf(b) };
        if go {
            let n = drive(p, body, s2, (s2.arch.cx + 1) as nat).1;
            assert(times(body, s, (n + 1) as nat) == times(body, s2, n));
        } else {
            assert(times(body, s2, 0) == s2);
            assert(times(body, s, 1) == s2);
        }
    }
}

// ---- bridges (C07): the REAL prefix productions have `step` as their postcondition.  The instruction handed over by
// `string_instructions` is a function pointer (`StringOp = fn(&mut VM)`), a type Verus does not have: rewrite R17 drops the parameter
// and turns its call `f(vm)` into `verif_fnptr_apply(vm)`, whose effect on the WHOLE machine is the uninterpreted `strop_eff` —
// the universally quantified `body` of the lemmas.  Assumed of it: it leaves CX alone (= `body_ok`; discharged per string function
// by the Kani units c_movs_* .. c_scas_*, register clauses).
pub uninterp spec fn strop_eff(s: VM) -> VM;
#[verifier::external_body]
pub fn verif_fnptr_apply(vm: &mut VM)
    ensures *final(vm) == strop_eff(*old(vm)), final(vm).arch.cx == old(vm).arch.cx,
{ }
pub open spec fn out_of(r: State) -> Out { if r is REPEAT { Out::Repeat } else { Out::Next } }
//@action src/lib/interpreter/interpreter.rs string = "rep", string_instructions as bridge_rep
//@contract
//@dropunused
//@fnptr f
    ensures
        *final(vm) == step(Prefix::Rep, |s: VM| strop_eff(s), *old(vm)).0, //# C07 bridge.rep_is_one_step_of_the_rep_lemma
        out_of(r) == step(Prefix::Rep, |s: VM| strop_eff(s), *old(vm)).1, //# C07 bridge.rep_asks_for_repetition_like_the_lemmas_step
        r is REPEAT || r is NEXT,
//@end
//@action src/lib/interpreter/interpreter.rs string = "repz", string_instructions as bridge_repz
//@contract
//@dropunused
//@fnptr f
    ensures
        *final(vm) == step(Prefix::Repe, |s: VM| strop_eff(s), *old(vm)).0, //# C07 bridge.rep_is_one_step_of_the_rep_lemma
        out_of(r) == step(Prefix::Repe, |s: VM| strop_eff(s), *old(vm)).1, //# C07 bridge.rep_asks_for_repetition_like_the_lemmas_step
        r is REPEAT || r is NEXT,
//@end
//@action src/lib/interpreter/interpreter.rs string = "repnz", string_instructions as bridge_repnz
//@contract
//@dropunused
//@fnptr f
    ensures
        *final(vm) == step(Prefix::Repne, |s: VM| strop_eff(s), *old(vm)).0, //# C07 bridge.rep_is_one_step_of_the_rep_lemma
        out_of(r) == step(Prefix::Repne, |s: VM| strop_eff(s), *old(vm)).1, //# C07 bridge.rep_asks_for_repetition_like_the_lemmas_step
        r is REPEAT || r is NEXT,
//@end
/// the unprefixed production: the instruction runs exactly once, nothing else happens, NEXT
//@action src/lib/interpreter/interpreter.rs string = string_instructions as bridge_string_plain
//@contract
//@dropunused
//@fnptr f
    ensures *final(vm) == strop_eff(*old(vm)), r is NEXT, //# C07 bridge.unprefixed_string_instruction_runs_exactly_once
//@end

// ============================================================================== C05: PUSH / POP
pub open spec fn physi(seg: int, off: int) -> int { (seg * 16 + off) % 0x100000 }
pub open spec fn nxt(a: int) -> int { (a + 1) % 0x100000 }
pub struct Stk { pub ss: int, pub sp: int, pub mem: Map<int, int> }
pub open spec fn wf(s: Stk) -> bool { 0 <= s.ss < 65536 && 0 <= s.sp < 65536 }

/// PUSH contract (Kani units h_push_*): SP' = SP-2 mod 2^16, word low-then-high at physi(SS,SP'), rest unchanged
pub open spec fn push(s: Stk, x: int) -> Stk {
    let sp2 = (s.sp - 2 + 65536) % 65536;
    let a = physi(s.ss, sp2);
    Stk { ss: s.ss, sp: sp2, mem: s.mem.insert(a, x % 256).insert(nxt(a), x / 256) }
}
/// POP contract (Kani units h_pop_*): value = word at physi(SS,SP), SP' = SP+2 mod 2^16, memory unchanged
pub open spec fn pop(s: Stk) -> (Stk, int) {
    let a = physi(s.ss, s.sp);
    (Stk { ss: s.ss, sp: (s.sp + 2) % 65536, mem: s.mem }, s.mem[a] + 256 * s.mem[nxt(a)])
}

/// PUSH x; POP y leaves y = x and SP restored, for every SS:SP including SP = 0, 1, 0xFFFF and the 1 MB wrap.
pub proof fn lemma_push_pop(s: Stk, x: int)
    requires wf(s), 0 <= x < 65536,
    ensures pop(push(s, x)).1 == x, pop(push(s, x)).0.sp == s.sp, pop(push(s, x)).0.ss == s.ss,
{
    let sp2 = (s.sp - 2 + 65536) % 65536;
    let a = physi(s.ss, sp2);
    assert(nxt(a) != a);
    assert((sp2 + 2) % 65536 == s.sp);
}

/// A run of pushes followed by as many pops returns the values in reverse order (reference stack), as long as
/// the slots used do not overlap through the 16-bit wrap of SP (2*n <= 65536) — the stated side condition.
pub open spec fn push_all(s: Stk, xs: Seq<int>) -> Stk
    decreases xs.len()
{ if xs.len() == 0 { s } else { push_all(push(s, xs[0]), xs.drop_first()) } }

pub open spec fn slot(s: Stk, k: int) -> int { physi(s.ss, (s.sp - 2 * k + 65536 * 4) % 65536) }

/// pushing never disturbs a slot pushed earlier while fewer than 32768 words are on this stack
pub proof fn lemma_push_keeps_earlier(s: Stk, x: int, k: int)
    requires wf(s), 0 <= x < 65536, 0 <= k < 32767,
    ensures
        ({ let a = physi(s.ss, (s.sp + 2 * k) % 65536); let t = push(s, x);
           t.mem[a] == s.mem[a] && t.mem[nxt(a)] == s.mem[nxt(a)] })
        || !(s.mem.dom().contains(physi(s.ss, (s.sp + 2 * k) % 65536)) && s.mem.dom().contains(nxt(physi(s.ss, (s.sp + 2 * k) % 65536)))),
{
    let sp2 = (s.sp - 2 + 65536) % 65536;
    let a = physi(s.ss, (s.sp + 2 * k) % 65536);
    let w = physi(s.ss, sp2);
    // offsets sp2, sp2+1 versus sp+2k, sp+2k+1 are distinct modulo 2^16 for k < 32767, hence distinct physical cells
    assert((s.sp + 2 * k) % 65536 != sp2);
    assert((s.sp + 2 * k + 1) % 65536 != sp2) by { }
    assert(w != a && w != nxt(a) && nxt(w) != a && nxt(w) != nxt(a)) by (nonlinear_arith)
        requires 0 <= s.ss < 65536, 0 <= s.sp < 65536, 0 <= k < 32767, sp2 == (s.sp - 2 + 65536) % 65536,
            a == (s.ss * 16 + (s.sp + 2 * k) % 65536) % 0x100000, w == (s.ss * 16 + sp2) % 0x100000,
    { }
}


// (C08: the CALL / RET nesting lemma lives in unit `transfer`, next to the real `call` / `ret` productions, where bridge functions tie
//  its step function to their contracts)


// ---- bridges (C05): `push` / `pop` above are no restatement by hand for these productions -- each bridge is the REAL production
// (interpreter.rs, verbatim) with the lemma's step function as its postcondition.  The register forms go through
// get/set_word_reg_val (Kani units h_push_* / h_pop_*); the forms below move the word between the stack and CS / memory.
pub open spec fn stk_view(vm: &VM) -> Stk {
    Stk { ss: vm.arch.ss as int, sp: vm.arch.sp as int, mem: Map::new(vstd::set_lib::set_int_range(0, 0x100000), |a: int| vm.mem[a] as int) }
}
pub proof fn lemma_sp_casts(s: u16, c: u16)
    ensures
        ((s as u32 as i32 - 2) as u32 as u16) == (if s >= 2 { (s - 2) as u16 } else { (s + 65534) as u16 }),
        ((s as u32 + 2) as u16) == (if s <= 65533 { (s + 2) as u16 } else { (s - 65534) as u16 }),
        ((c as i16) as u16) == c,
{
    assert(((s as u32 as i32 - 2) as u32 as u16) == (if s >= 2 { (s - 2) as u16 } else { (s + 65534) as u16 })) by (bit_vector);
    assert(((s as u32 + 2) as u16) == (if s <= 65533 { (s + 2) as u16 } else { (s - 65534) as u16 })) by (bit_vector);
    assert(((c as i16) as u16) == c) by (bit_vector);
}
//@action src/lib/interpreter/interpreter.rs push = "push", "cs" as bridge_push_cs
//@contract
//@dropunused
    requires <usize as IntoSpec<usize>>::obeys_into_spec(),
    ensures
        stk_view(final(vm)).sp == push(stk_view(old(vm)), old(vm).arch.cs as int).sp, //# C05 bridge.push_moves_sp_like_the_lemmas_push_step
        stk_view(final(vm)).ss == push(stk_view(old(vm)), old(vm).arch.cs as int).ss,
        stk_view(final(vm)).mem =~= push(stk_view(old(vm)), old(vm).arch.cs as int).mem, //# C05 bridge.push_writes_memory_like_the_lemmas_push_step
        final(vm).arch == (i8086 { sp: final(vm).arch.sp, ..old(vm).arch }),
//@before vm.arch.sp = :: proof { lemma_sp_casts(old(vm).arch.sp, old(vm).arch.cs); }
//@end
//@action src/lib/interpreter/interpreter.rs pop = "pop", "word", memory_addr as bridge_pop_mem
//@contract
//@dropunused
    requires <usize as IntoSpec<usize>>::obeys_into_spec(), m < 0x100000,
    ensures
        // the word the lemma's pop step yields is what arrives at the destination (low byte first), SP as in the lemma
        final(vm).arch.sp as int == pop(stk_view(old(vm))).0.sp, //# C05 bridge.pop_moves_sp_like_the_lemmas_pop_step
        final(vm).mem[m as int] as int + 256 * (final(vm).mem[(m as int + 1) % 0x100000] as int) == pop(stk_view(old(vm))).1
            || (m as int + 1) % 0x100000 == m as int, //# C05 bridge.pop_delivers_the_word_of_the_lemmas_pop_step
        final(vm).arch == (i8086 { sp: final(vm).arch.sp, ..old(vm).arch }),
//@before let ss = :: proof { lemma_sp_casts(old(vm).arch.sp, old(vm).arch.cs); }
//@end


// ---- the register forms: push <reg> / pop <reg> through the real get_word_reg_val / set_word_reg_val
//@item src/lib/util/data_util.rs enum WordReg
pub open spec fn reg_of(a: i8086, r: WordReg) -> u16 {
    match r {
        WordReg::AX => a.ax, WordReg::BX => a.bx, WordReg::CX => a.cx, WordReg::DX => a.dx, WordReg::SS => a.ss, WordReg::DS => a.ds,
        WordReg::CS => a.cs, WordReg::ES => a.es, WordReg::SI => a.si, WordReg::DI => a.di, WordReg::SP => a.sp, WordReg::BP => a.bp,
    }
}
pub open spec fn with_reg(a: i8086, r: WordReg, v: u16) -> i8086 {
    match r {
        WordReg::AX => i8086 { ax: v, ..a }, WordReg::BX => i8086 { bx: v, ..a }, WordReg::CX => i8086 { cx: v, ..a }, WordReg::DX => i8086 { dx: v, ..a },
        WordReg::SS => i8086 { ss: v, ..a }, WordReg::DS => i8086 { ds: v, ..a }, WordReg::CS => i8086 { cs: v, ..a }, WordReg::ES => i8086 { es: v, ..a },
        WordReg::SI => i8086 { si: v, ..a }, WordReg::DI => i8086 { di: v, ..a }, WordReg::SP => i8086 { sp: v, ..a }, WordReg::BP => i8086 { bp: v, ..a },
    }
}
//@fn src/lib/util/data_util.rs get_word_reg_val
//@contract
    ensures r == reg_of(vm.arch, reg),
//@end
//@fn src/lib/util/data_util.rs set_word_reg_val
//@contract
    ensures final(vm).arch == with_reg(old(vm).arch, reg, val), final(vm).mem == old(vm).mem,
//@end
//@action src/lib/interpreter/interpreter.rs push = "push", pop_reg as bridge_push_reg
//@contract
//@dropunused
    requires <usize as IntoSpec<usize>>::obeys_into_spec(),
    ensures
        // the word pushed is the register AFTER the decrement of SP (for `push sp` the 8086 stores the new SP)
        stk_view(final(vm)).sp == push(stk_view(old(vm)), reg_of(final(vm).arch, r) as int).sp, //# C05 bridge.push_moves_sp_like_the_lemmas_push_step
        stk_view(final(vm)).mem =~= push(stk_view(old(vm)), reg_of(final(vm).arch, r) as int).mem, //# C05 bridge.push_writes_memory_like_the_lemmas_push_step
        final(vm).arch == (i8086 { sp: final(vm).arch.sp, ..old(vm).arch }),
//@before vm.arch.sp = :: proof { lemma_sp_casts(old(vm).arch.sp, reg_of(old(vm).arch, r)); lemma_sp_casts(old(vm).arch.sp, ((old(vm).arch.sp as int - 2 + 65536) % 65536) as u16); }
//@end
pub proof fn lemma_word(lo: u8, hi: u8)
    ensures (lo as u16 | (hi as u16) << 8) == (lo as u16 + 256 * (hi as u16)) as u16, lo as int + 256 * (hi as int) < 65536,
{
    assert((lo as u16 | (hi as u16) << 8) == (lo as u16 + 256 * (hi as u16)) as u16) by (bit_vector);
}
//@action src/lib/interpreter/interpreter.rs pop = "pop", pop_reg as bridge_pop_reg
//@contract
//@dropunused
    requires <usize as IntoSpec<usize>>::obeys_into_spec(),
    ensures
        reg_of(final(vm).arch, r) as int == pop(stk_view(old(vm))).1, //# C05 bridge.pop_delivers_the_word_of_the_lemmas_pop_step
        !(r is SP) ==> final(vm).arch.sp as int == pop(stk_view(old(vm))).0.sp, //# C05 bridge.pop_moves_sp_like_the_lemmas_pop_step
        final(vm).mem == old(vm).mem,
//@before let ss = :: proof { lemma_sp_casts(old(vm).arch.sp, old(vm).arch.cs); }
//@before let val = :: proof { lemma_word(vm.mem[base as int], vm.mem[(base as int + 1) % 0x100000]); }
//@end

// ================================================================================ C12: layout
/// Loader contract (Verus unit `loader`): a definition of size n occupies counter .. counter+n and advances the
/// counter by n.  Hence a sequence of definitions is laid out contiguously, in order, from the counter's start.
pub open spec fn offsets(start: int, sizes: Seq<int>) -> Seq<int>
    decreases sizes.len()
{ if sizes.len() == 0 { Seq::empty() } else { seq![start] + offsets(start + sizes[0], sizes.drop_first()) } }

pub open spec fn total(sizes: Seq<int>) -> int
    decreases sizes.len()
{ if sizes.len() == 0 { 0 } else { sizes[0] + total(sizes.drop_first()) } }

pub proof fn lemma_contiguous(start: int, sizes: Seq<int>, i: int)
    requires 0 <= i < sizes.len() - 1, forall|k: int| 0 <= k < sizes.len() ==> sizes[k] >= 0,
    ensures
        offsets(start, sizes).len() == sizes.len(),
        // each definition starts exactly where the previous one ended
        offsets(start, sizes)[i + 1] == offsets(start, sizes)[i] + sizes[i],
        offsets(start, sizes)[0] == start,
    decreases sizes.len()
{
    lemma_len(start, sizes);
    if i > 0 {
        let rest = sizes.drop_first();
        assert forall|k: int| 0 <= k < rest.len() implies rest[k] >= 0 by { assert(rest[k] == sizes[k + 1]); }
        lemma_contiguous(start + sizes[0], rest, i - 1);
        lemma_len(start + sizes[0], rest);
        assert(offsets(start, sizes)[i + 1] == offsets(start + sizes[0], rest)[i]);
        assert(offsets(start, sizes)[i] == offsets(start + sizes[0], rest)[i - 1]);
        assert(rest[i - 1] == sizes[i]);
    } else {
        let rest = sizes.drop_first();
        lemma_len(start + sizes[0], rest);
        assert(offsets(start, sizes)[1] == offsets(start + sizes[0], rest)[0]);
    }
}

pub proof fn lemma_len(start: int, sizes: Seq<int>)
    ensures offsets(start, sizes).len() == sizes.len()
    decreases sizes.len()
{
    if sizes.len() > 0 { lemma_len(start + sizes[0], sizes.drop_first()); }
}

} // verus!
fn main() {}
