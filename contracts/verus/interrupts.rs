// Unit `interrupts` (C18, C09): src/driver/interrupts.rs
//  int_13  AH=0Ah: the character in AL exactly CX times; AH=13h: DL blanks, then the CX bytes at ES:BP (+i, mod 2^20)
//          nothing else for any other AH; machine read-only (&VM); no index outside the memory for any register content
//  store_input_line (the store half of int 21h AH=0Ah): at most `capacity` bytes stored at DS:DX+2.., the count at DS:DX+1,
//          every other byte of memory and every register unchanged, for every line and every register content
verus! {

// byte registers: the REAL get_byte_reg / set_byte_reg (data_util.rs, verbatim); the bit-vector facts are hints
//@item src/lib/util/data_util.rs enum ByteReg
pub proof fn lemma_halves(w: u16, v: u8)
    ensures ((w & 0xFFu16) as u8) == (w % 256) as u8, (((w & !0xFFu16) >> 8) as u8) == (w / 256) as u8,
        ((w & !0xFFu16) | v as u16) == ((w / 256) * 256 + v) as u16, ((w & 0xFFu16) | (v as u16) << 8) == ((w % 256) + v * 256) as u16,
        (255i16 as u16) == 0xFFu16,
{
    assert(((w & 0xFFu16) as u8) == (w % 256) as u8) by (bit_vector);
    assert((((w & !0xFFu16) >> 8) as u8) == (w / 256) as u8) by (bit_vector);
    assert(((w & !0xFFu16) | v as u16) == ((w / 256) * 256 + v) as u16) by (bit_vector);
    assert(((w & 0xFFu16) | (v as u16) << 8) == ((w % 256) + v * 256) as u16) by (bit_vector);
    assert((255i16 as u16) == 0xFFu16) by (bit_vector);
}
//@fn src/lib/util/data_util.rs get_byte_reg
//@contract
    ensures r == (match reg {
        ByteReg::AL => vm.arch.ax % 256, ByteReg::AH => vm.arch.ax / 256,
        ByteReg::BL => vm.arch.bx % 256, ByteReg::BH => vm.arch.bx / 256,
        ByteReg::CL => vm.arch.cx % 256, ByteReg::CH => vm.arch.cx / 256,
        ByteReg::DL => vm.arch.dx % 256, ByteReg::DH => vm.arch.dx / 256 }),
//@before match reg :: proof { lemma_halves(vm.arch.ax, 0); lemma_halves(vm.arch.bx, 0); lemma_halves(vm.arch.cx, 0); lemma_halves(vm.arch.dx, 0); }
//@end

pub open spec fn lit_is(k: int, lit: int) -> bool { k == lit }

//@fn src/driver/interrupts.rs int_13
//@contract
    ensures
        ah != 0xA && ah != 0x13 ==> final(verif_log).entries == old(verif_log).entries,
        ah == 0xA ==> final(verif_log).entries.len() == old(verif_log).entries.len() + vm.arch.cx
            && (forall|i: int| 0 <= i < vm.arch.cx ==> #[trigger] final(verif_log).entries[old(verif_log).entries.len() + i] == seq![(vm.arch.ax % 256) as u64]),
        ah == 0x13 ==> final(verif_log).entries.len() == old(verif_log).entries.len() + (vm.arch.dx % 256) + vm.arch.cx
            && (forall|i: int| 0 <= i < vm.arch.dx % 256 ==> #[trigger] final(verif_log).entries[old(verif_log).entries.len() + i] == Seq::<u64>::empty())
            && (forall|i: int| 0 <= i < vm.arch.cx ==> #[trigger] final(verif_log).entries[old(verif_log).entries.len() + (vm.arch.dx % 256) + i]
                    == seq![vm.mem[(vm.arch.es as int * 16 + vm.arch.bp + i) % 0x100000] as u64]),
//@loop 0
            invariant
                al == vm.arch.ax % 256,
                verif_log.entries.len() == old(verif_log).entries.len() + verif_it.index@,
                forall|i: int| 0 <= i < verif_it.index@ ==> #[trigger] verif_log.entries[old(verif_log).entries.len() + i] == seq![(vm.arch.ax % 256) as u64],
//@end
//@loop 1
            invariant
                dl == vm.arch.dx % 256,
                verif_log.entries.len() == old(verif_log).entries.len() + verif_it.index@,
                forall|i: int| 0 <= i < verif_it.index@ ==> #[trigger] verif_log.entries[old(verif_log).entries.len() + i] == Seq::<u64>::empty(),
//@end
//@loop 2
            invariant
                l == vm.arch.cx, dl == vm.arch.dx % 256, start == vm.arch.es as int * 16 + vm.arch.bp,
                verif_log.entries.len() == old(verif_log).entries.len() + dl + i,
                forall|j: int| 0 <= j < dl ==> #[trigger] verif_log.entries[old(verif_log).entries.len() + j] == Seq::<u64>::empty(),
                forall|j: int| 0 <= j < i ==> #[trigger] verif_log.entries[old(verif_log).entries.len() + dl + j]
                    == seq![vm.mem[(vm.arch.es as int * 16 + vm.arch.bp + j) % 0x100000] as u64],
//@end
//@end

pub open spec fn line_len(line: &[u8]) -> int {
    if line@.len() > 0 && line@[line@.len() - 1] == 10u8 { line@.len() - 1 } else { line@.len() as int }
}
pub open spec fn buf(vm: &VM) -> int { vm.arch.ds as int * 16 + vm.arch.dx }
pub open spec fn stored(vm: &VM, line: &[u8]) -> int {
    if line_len(line) < vm.mem[buf(vm) % 0x100000] { line_len(line) } else { vm.mem[buf(vm) % 0x100000] as int }
}

//@fn src/driver/interrupts.rs store_input_line
//@contract
    ensures
        final(vm).arch == old(vm).arch,
        // never more than the declared capacity
        stored(old(vm), line) <= old(vm).mem[buf(old(vm)) % 0x100000],
        forall|a: int| 0 <= a < 0x100000 ==> #[trigger] final(vm).mem[a] == (
            if 2 <= rel(a, buf(old(vm)) % 0x100000) < 2 + stored(old(vm), line) { line@[rel(a, buf(old(vm)) % 0x100000) - 2] }
            else if rel(a, buf(old(vm)) % 0x100000) == 1 { stored(old(vm), line) as u8 }
            else { old(vm).mem[a] }),
//@loop 0
        invariant
            vm.arch == old(vm).arch, start == buf(old(vm)), count == stored(old(vm), line), count <= 255, count <= line@.len(),
            forall|a: int| 0 <= a < 0x100000 ==> #[trigger] vm.mem[a] == (
                if 2 <= rel(a, start as int % 0x100000) < 2 + i { line@[rel(a, start as int % 0x100000) - 2] }
                else if rel(a, start as int % 0x100000) == 1 { count as u8 }
                else { old(vm).mem[a] }),
//@end
//@end

//@fn src/lib/util/data_util.rs set_byte_reg
//@contract
    ensures final(vm).mem == old(vm).mem,
        final(vm).arch.flag == old(vm).arch.flag, final(vm).arch.sp == old(vm).arch.sp, final(vm).arch.bp == old(vm).arch.bp,
        final(vm).arch.si == old(vm).arch.si, final(vm).arch.di == old(vm).arch.di, final(vm).arch.ip == old(vm).arch.ip,
        final(vm).arch.cs == old(vm).arch.cs, final(vm).arch.ds == old(vm).arch.ds, final(vm).arch.ss == old(vm).arch.ss, final(vm).arch.es == old(vm).arch.es,
        final(vm).arch.ax == (match reg { ByteReg::AL => ((old(vm).arch.ax / 256) * 256 + val) as u16, ByteReg::AH => ((old(vm).arch.ax % 256) + val * 256) as u16, _ => old(vm).arch.ax }),
        final(vm).arch.bx == (match reg { ByteReg::BL => ((old(vm).arch.bx / 256) * 256 + val) as u16, ByteReg::BH => ((old(vm).arch.bx % 256) + val * 256) as u16, _ => old(vm).arch.bx }),
        final(vm).arch.cx == (match reg { ByteReg::CL => ((old(vm).arch.cx / 256) * 256 + val) as u16, ByteReg::CH => ((old(vm).arch.cx % 256) + val * 256) as u16, _ => old(vm).arch.cx }),
        final(vm).arch.dx == (match reg { ByteReg::DL => ((old(vm).arch.dx / 256) * 256 + val) as u16, ByteReg::DH => ((old(vm).arch.dx % 256) + val * 256) as u16, _ => old(vm).arch.dx }),
//@before match reg :: proof { lemma_halves(vm.arch.ax, val); lemma_halves(vm.arch.bx, val); lemma_halves(vm.arch.cx, val); lemma_halves(vm.arch.dx, val); }
//@end

pub open spec fn seq_len(line: Seq<u8>) -> int {
    if line.len() > 0 && line[line.len() - 1] == 10u8 { line.len() - 1 } else { line.len() as int }
}
pub open spec fn stored_seq(vm: &VM, line: Seq<u8>) -> int {
    if seq_len(line) < vm.mem[buf(vm) % 0x100000] { seq_len(line) } else { vm.mem[buf(vm) % 0x100000] as int }
}
pub open spec fn first_or_0(line: Seq<u8>) -> u8 { if line.len() > 0 { line[0] } else { 0u8 } }
pub open spec fn next_line(inp: &InLog) -> Seq<u8> { if inp.lines.len() > 0 { inp.lines[0] } else { Seq::<u8>::empty() } }

//@fn src/driver/interrupts.rs int_21
//@contract
    ensures
        // AH=2: writes the character in DL and returns it in AL; nothing else changes
        ah == 2 ==> final(verif_log).entries =~= old(verif_log).entries.push(seq![(old(vm).arch.dx % 256) as u64])
            && final(vm).arch.ax == ((old(vm).arch.ax / 256) * 256 + old(vm).arch.dx % 256) as u16
            && final(vm).mem == old(vm).mem && final(verif_in).lines == old(verif_in).lines,
        // AH=1: AL = first byte of the next input line, 0 at end of input (a read error is reported and changes nothing)
        ah == 1 ==> final(vm).mem == old(vm).mem
            && (final(vm).arch.ax == ((old(vm).arch.ax / 256) * 256 + first_or_0(next_line(old(verif_in)))) as u16
                || (final(vm).arch.ax == old(vm).arch.ax && final(verif_in).lines == old(verif_in).lines && final(verif_log).entries.len() == old(verif_log).entries.len() + 1)),
        // AH=0Ah: the next input line is stored in the buffer at DS:DX exactly as store_input_line specifies
        // (at most the declared capacity, count at +1), registers untouched; a read error changes nothing
        ah == 0xA ==> final(vm).arch == old(vm).arch
            && ((final(vm).mem == old(vm).mem && final(verif_in).lines == old(verif_in).lines)
                || (forall|a: int| 0 <= a < 0x100000 ==> #[trigger] final(vm).mem[a] == (
                        if 2 <= rel(a, buf(old(vm)) % 0x100000) < 2 + stored_seq(old(vm), next_line(old(verif_in))) { next_line(old(verif_in))[rel(a, buf(old(vm)) % 0x100000) - 2] }
                        else if rel(a, buf(old(vm)) % 0x100000) == 1 { stored_seq(old(vm), next_line(old(verif_in))) as u8 }
                        else { old(vm).mem[a] }))),
        // any other AH: nothing at all
        ah != 1 && ah != 2 && ah != 0xA ==> final(vm).arch == old(vm).arch && final(vm).mem == old(vm).mem
            && final(verif_log).entries == old(verif_log).entries && final(verif_in).lines == old(verif_in).lines,
        // every AH: only AX can change among the registers
        final(vm).arch.bx == old(vm).arch.bx, final(vm).arch.cx == old(vm).arch.cx, final(vm).arch.dx == old(vm).arch.dx,
        final(vm).arch.flag == old(vm).arch.flag, final(vm).arch.sp == old(vm).arch.sp, final(vm).arch.ds == old(vm).arch.ds,
        final(vm).arch.es == old(vm).arch.es, final(vm).arch.ss == old(vm).arch.ss, final(vm).arch.cs == old(vm).arch.cs,
        final(vm).arch.si == old(vm).arch.si, final(vm).arch.di == old(vm).arch.di, final(vm).arch.bp == old(vm).arch.bp,
//@end

} // verus!
fn main() {}
