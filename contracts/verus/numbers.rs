// Unit `numbers` (C14, C09, C12, C17): every number-literal production of the assembler, the interpreter, the data loader and the
// print reader, verbatim, for literals of ANY length.  Top-level postcondition (from C14): a constant is accepted iff its value
// is in the range of the operand type, and then with exactly its value (addresses: reduced modulo 1 MB); otherwise refused.
// The value of the digit text is an uninterpreted function; what links it to the code is the ASSUMED contract of std's
// from_str_radix below (for a well-formed digit string: Ok(v) iff the value fits the type, and v is the value).  The bounded
// Kani units b_pp_* execute the real from_str_radix on every literal of bounded length and stay as a cross-check of that assumption.
macro_rules! error {
    (  $s:expr,$e:expr,$err:expr ) => {{
        Err(ParseError::UnrecognizedToken {
            token: ($s, Token(0, ""), $e),
            expected: vec![$err],
        })
    }};
}

verus! {

pub struct Token(pub usize, pub &'static str);
pub enum ParseError {
    UnrecognizedToken { token: (usize, Token, usize), expected: Vec<String> },
    Other,
}

#[verifier::external_type_specification]
#[verifier::external_body]
pub struct ExParseIntError(core::num::ParseIntError);

/// mathematical value of a digit string in the radix, with an optional leading '-'
pub uninterp spec fn text_value(s: Seq<char>, radix: int) -> int;
/// the text is a well-formed number of the radix: optional '-', at least one digit, only digits of the radix
/// (what each literal token's regular expression admits, after its 0x / 0b prefix)
pub uninterp spec fn text_is_number(s: Seq<char>, radix: int) -> bool;
pub assume_specification [u8::from_str_radix] (s: &str, radix: u32) -> (r: Result<u8, core::num::ParseIntError>)
    ensures text_is_number(s@, radix as int) ==> (r is Ok <==> 0 <= text_value(s@, radix as int) <= 0xFF),
            text_is_number(s@, radix as int) && r is Ok ==> r->Ok_0 as int == text_value(s@, radix as int);
pub assume_specification [u16::from_str_radix] (s: &str, radix: u32) -> (r: Result<u16, core::num::ParseIntError>)
    ensures text_is_number(s@, radix as int) ==> (r is Ok <==> 0 <= text_value(s@, radix as int) <= 0xFFFF),
            text_is_number(s@, radix as int) && r is Ok ==> r->Ok_0 as int == text_value(s@, radix as int);
pub assume_specification [i8::from_str_radix] (s: &str, radix: u32) -> (r: Result<i8, core::num::ParseIntError>)
    ensures text_is_number(s@, radix as int) ==> (r is Ok <==> -0x80 <= text_value(s@, radix as int) <= 0x7F),
            text_is_number(s@, radix as int) && r is Ok ==> r->Ok_0 as int == text_value(s@, radix as int);
pub assume_specification [i16::from_str_radix] (s: &str, radix: u32) -> (r: Result<i16, core::num::ParseIntError>)
    ensures text_is_number(s@, radix as int) ==> (r is Ok <==> -0x8000 <= text_value(s@, radix as int) <= 0x7FFF),
            text_is_number(s@, radix as int) && r is Ok ==> r->Ok_0 as int == text_value(s@, radix as int);
pub assume_specification [u32::from_str_radix] (s: &str, radix: u32) -> (r: Result<u32, core::num::ParseIntError>)
    ensures text_is_number(s@, radix as int) ==> (r is Ok <==> 0 <= text_value(s@, radix as int) <= 0xFFFF_FFFF),
            text_is_number(s@, radix as int) && r is Ok ==> r->Ok_0 as int == text_value(s@, radix as int);
pub assume_specification [usize::from_str_radix] (s: &str, radix: u32) -> (r: Result<usize, core::num::ParseIntError>)
    ensures text_is_number(s@, radix as int) ==> (r is Ok <==> 0 <= text_value(s@, radix as int) <= usize::MAX),
            text_is_number(s@, radix as int) && r is Ok ==> r->Ok_0 as int == text_value(s@, radix as int);

//@action src/lib/preprocessor/preprocessor.rs u_word_num = r#"[0-9]+"# as nm_pp_u_word_num_dec
//@contract
//@strslice
//@dropunused
    requires n.is_ascii(), n@.len() >= 1, text_is_number(n@, 10),   // the token's regular expression
    ensures
        r is Ok <==> 0 <= text_value(n@, 10) <= 0xFFFF,      //# C14,C11 number.accepted_iff_in_the_range_of_its_operand_type
        r is Ok ==> r->Ok_0 as int == text_value(n@, 10),       //# C14,C11 number.accepted_with_its_value
//@end

//@action src/lib/preprocessor/preprocessor.rs u_word_num = r#"0(x|X)[0-9A-Fa-f]+"# as nm_pp_u_word_num_hex
//@contract
//@strslice
//@dropunused
    requires n.is_ascii(), n@.len() >= 3, text_is_number(n@.subrange(2, n@.len() as int), 16),   // the token's regular expression
    ensures
        r is Ok <==> 0 <= text_value(n@.subrange(2, n@.len() as int), 16) <= 0xFFFF,      //# C14,C11 number.accepted_iff_in_the_range_of_its_operand_type
        r is Ok ==> r->Ok_0 as int == text_value(n@.subrange(2, n@.len() as int), 16),       //# C14,C11 number.accepted_with_its_value
//@end

//@action src/lib/preprocessor/preprocessor.rs u_word_num = r#"0(b|B)[0-1]+"# as nm_pp_u_word_num_bin
//@contract
//@strslice
//@dropunused
    requires n.is_ascii(), n@.len() >= 3, text_is_number(n@.subrange(2, n@.len() as int), 2),   // the token's regular expression
    ensures
        r is Ok <==> 0 <= text_value(n@.subrange(2, n@.len() as int), 2) <= 0xFFFF,      //# C14,C11 number.accepted_iff_in_the_range_of_its_operand_type
        r is Ok ==> r->Ok_0 as int == text_value(n@.subrange(2, n@.len() as int), 2),       //# C14,C11 number.accepted_with_its_value
//@end

//@action src/lib/preprocessor/preprocessor.rs u_byte_num = r#"[0-9]+"# as nm_pp_u_byte_num_dec
//@contract
//@strslice
//@dropunused
    requires n.is_ascii(), n@.len() >= 1, text_is_number(n@, 10),   // the token's regular expression
    ensures
        r is Ok <==> 0 <= text_value(n@, 10) <= 0xFF,      //# C14,C11 number.accepted_iff_in_the_range_of_its_operand_type
        r is Ok ==> r->Ok_0 as int == text_value(n@, 10),       //# C14,C11 number.accepted_with_its_value
//@end

//@action src/lib/preprocessor/preprocessor.rs u_byte_num = r#"0(x|X)[0-9A-Fa-f]+"# as nm_pp_u_byte_num_hex
//@contract
//@strslice
//@dropunused
    requires n.is_ascii(), n@.len() >= 3, text_is_number(n@.subrange(2, n@.len() as int), 16),   // the token's regular expression
    ensures
        r is Ok <==> 0 <= text_value(n@.subrange(2, n@.len() as int), 16) <= 0xFF,      //# C14,C11 number.accepted_iff_in_the_range_of_its_operand_type
        r is Ok ==> r->Ok_0 as int == text_value(n@.subrange(2, n@.len() as int), 16),       //# C14,C11 number.accepted_with_its_value
//@end

//@action src/lib/preprocessor/preprocessor.rs u_byte_num = r#"0(b|B)[0-1]+"# as nm_pp_u_byte_num_bin
//@contract
//@strslice
//@dropunused
    requires n.is_ascii(), n@.len() >= 3, text_is_number(n@.subrange(2, n@.len() as int), 2),   // the token's regular expression
    ensures
        r is Ok <==> 0 <= text_value(n@.subrange(2, n@.len() as int), 2) <= 0xFF,      //# C14,C11 number.accepted_iff_in_the_range_of_its_operand_type
        r is Ok ==> r->Ok_0 as int == text_value(n@.subrange(2, n@.len() as int), 2),       //# C14,C11 number.accepted_with_its_value
//@end

//@action src/lib/preprocessor/preprocessor.rs s_word_num = r#"-[0-9]+"# as nm_pp_s_word_num_neg
//@contract
//@strslice
//@dropunused
    requires n.is_ascii(), n@.len() >= 1, text_is_number(n@, 10),   // the token's regular expression
    ensures
        r is Ok <==> -0x8000 <= text_value(n@, 10) <= 0x7FFF,      //# C14,C11 number.accepted_iff_in_the_range_of_its_operand_type
        r is Ok ==> r->Ok_0 as int == text_value(n@, 10),       //# C14,C11 number.accepted_with_its_value
//@end

//@action src/lib/preprocessor/preprocessor.rs s_byte_num = r#"-[0-9]+"# as nm_pp_s_byte_num_neg
//@contract
//@strslice
//@dropunused
    requires n.is_ascii(), n@.len() >= 1, text_is_number(n@, 10),   // the token's regular expression
    ensures
        r is Ok <==> -0x80 <= text_value(n@, 10) <= 0x7F,      //# C14,C11 number.accepted_iff_in_the_range_of_its_operand_type
        r is Ok ==> r->Ok_0 as int == text_value(n@, 10),       //# C14,C11 number.accepted_with_its_value
//@end

//@action src/lib/preprocessor/preprocessor.rs raw_addr = r#"[0-9]+"# as nm_pp_raw_addr_dec
//@contract
//@strslice
//@dropunused
    requires n.is_ascii(), n@.len() >= 1, text_is_number(n@, 10),   // the token's regular expression
    ensures
        r is Ok <==> 0 <= text_value(n@, 10) <= 0xFFFF_FFFF,      //# C14,C11 number.accepted_iff_in_the_range_of_its_operand_type
        r is Ok ==> r->Ok_0 as int == text_value(n@, 10) % 0x100000,       //# C14,C11 number.accepted_with_its_value
//@end

//@action src/lib/preprocessor/preprocessor.rs raw_addr = r#"0(x|X)[0-9A-Fa-f]+"# as nm_pp_raw_addr_hex
//@contract
//@strslice
//@dropunused
    requires n.is_ascii(), n@.len() >= 3, text_is_number(n@.subrange(2, n@.len() as int), 16),   // the token's regular expression
    ensures
        r is Ok <==> 0 <= text_value(n@.subrange(2, n@.len() as int), 16) <= 0xFFFF_FFFF,      //# C14,C11 number.accepted_iff_in_the_range_of_its_operand_type
        r is Ok ==> r->Ok_0 as int == text_value(n@.subrange(2, n@.len() as int), 16) % 0x100000,       //# C14,C11 number.accepted_with_its_value
//@end

//@action src/lib/preprocessor/preprocessor.rs raw_addr = r#"0(b|B)[0-1]+"# as nm_pp_raw_addr_bin
//@contract
//@strslice
//@dropunused
    requires n.is_ascii(), n@.len() >= 3, text_is_number(n@.subrange(2, n@.len() as int), 2),   // the token's regular expression
    ensures
        r is Ok <==> 0 <= text_value(n@.subrange(2, n@.len() as int), 2) <= 0xFFFF_FFFF,      //# C14,C11 number.accepted_iff_in_the_range_of_its_operand_type
        r is Ok ==> r->Ok_0 as int == text_value(n@.subrange(2, n@.len() as int), 2) % 0x100000,       //# C14,C11 number.accepted_with_its_value
//@end

//@action src/lib/interpreter/interpreter.rs u_word_num = r#"[0-9]+"# as nm_it_u_word_num_dec
//@contract
//@strslice
//@dropunused
    requires n.is_ascii(), n@.len() >= 1, text_is_number(n@, 10),   // the token's regular expression
    ensures
        r is Ok <==> 0 <= text_value(n@, 10) <= 0xFFFF,      //# C01,C05 number.accepted_iff_in_the_range_of_its_operand_type
        r is Ok ==> r->Ok_0 as int == text_value(n@, 10),       //# C01,C05 number.accepted_with_its_value
//@end

//@action src/lib/interpreter/interpreter.rs u_byte_num = r#"[0-9]+"# as nm_it_u_byte_num_dec
//@contract
//@strslice
//@dropunused
    requires n.is_ascii(), n@.len() >= 1, text_is_number(n@, 10),   // the token's regular expression
    ensures
        r is Ok <==> 0 <= text_value(n@, 10) <= 0xFF,      //# C01,C05 number.accepted_iff_in_the_range_of_its_operand_type
        r is Ok ==> r->Ok_0 as int == text_value(n@, 10),       //# C01,C05 number.accepted_with_its_value
//@end

//@action src/lib/interpreter/interpreter.rs s_word_num = r#"-[0-9]+"# as nm_it_s_word_num_neg
//@contract
//@strslice
//@dropunused
    requires n.is_ascii(), n@.len() >= 1, text_is_number(n@, 10),   // the token's regular expression
    ensures
        r is Ok <==> -0x8000 <= text_value(n@, 10) <= 0x7FFF,      //# C01,C05 number.accepted_iff_in_the_range_of_its_operand_type
        r is Ok ==> r->Ok_0 as int == text_value(n@, 10),       //# C01,C05 number.accepted_with_its_value
//@end

//@action src/lib/interpreter/interpreter.rs s_byte_num = r#"-[0-9]+"# as nm_it_s_byte_num_neg
//@contract
//@strslice
//@dropunused
    requires n.is_ascii(), n@.len() >= 1, text_is_number(n@, 10),   // the token's regular expression
    ensures
        r is Ok <==> -0x80 <= text_value(n@, 10) <= 0x7F,      //# C01,C05 number.accepted_iff_in_the_range_of_its_operand_type
        r is Ok ==> r->Ok_0 as int == text_value(n@, 10),       //# C01,C05 number.accepted_with_its_value
//@end

//@action src/lib/interpreter/interpreter.rs raw_addr = r#"[0-9]+"# as nm_it_raw_addr_dec
//@contract
//@strslice
//@dropunused
    requires n.is_ascii(), n@.len() >= 1, text_is_number(n@, 10),   // the token's regular expression
    ensures
        r is Ok <==> 0 <= text_value(n@, 10) <= 0xFFFF_FFFF,      //# C01,C05 number.accepted_iff_in_the_range_of_its_operand_type
        r is Ok ==> r->Ok_0 as int == text_value(n@, 10) % 0x100000,       //# C01,C05 number.accepted_with_its_value
//@end

//@action src/lib/data_parser/data_parser.rs u_word_num = r#"[0-9]+"# as nm_ld_u_word_num_dec
//@contract
//@strslice
//@dropunused
    requires n.is_ascii(), n@.len() >= 1, text_is_number(n@, 10),   // the token's regular expression
    ensures
        r is Ok <==> 0 <= text_value(n@, 10) <= 0xFFFF,      //# C12 number.accepted_iff_in_the_range_of_its_operand_type
        r is Ok ==> r->Ok_0 as int == text_value(n@, 10),       //# C12 number.accepted_with_its_value
//@end

//@action src/lib/data_parser/data_parser.rs u_byte_num = r#"[0-9]+"# as nm_ld_u_byte_num_dec
//@contract
//@strslice
//@dropunused
    requires n.is_ascii(), n@.len() >= 1, text_is_number(n@, 10),   // the token's regular expression
    ensures
        r is Ok <==> 0 <= text_value(n@, 10) <= 0xFF,      //# C12 number.accepted_iff_in_the_range_of_its_operand_type
        r is Ok ==> r->Ok_0 as int == text_value(n@, 10),       //# C12 number.accepted_with_its_value
//@end

//@action src/lib/data_parser/data_parser.rs s_word_num = r#"-[0-9]+"# as nm_ld_s_word_num_neg
//@contract
//@strslice
//@dropunused
    requires n.is_ascii(), n@.len() >= 1, text_is_number(n@, 10),   // the token's regular expression
    ensures
        r is Ok <==> -0x8000 <= text_value(n@, 10) <= 0x7FFF,      //# C12 number.accepted_iff_in_the_range_of_its_operand_type
        r is Ok ==> r->Ok_0 as int == text_value(n@, 10),       //# C12 number.accepted_with_its_value
//@end

//@action src/lib/data_parser/data_parser.rs s_byte_num = r#"-[0-9]+"# as nm_ld_s_byte_num_neg
//@contract
//@strslice
//@dropunused
    requires n.is_ascii(), n@.len() >= 1, text_is_number(n@, 10),   // the token's regular expression
    ensures
        r is Ok <==> -0x80 <= text_value(n@, 10) <= 0x7F,      //# C12 number.accepted_iff_in_the_range_of_its_operand_type
        r is Ok ==> r->Ok_0 as int == text_value(n@, 10),       //# C12 number.accepted_with_its_value
//@end

//@action src/driver/print.rs raw_addr = r#"[0-9]+"# as nm_pr_raw_addr_dec
//@contract
//@strslice
//@dropunused
    requires n.is_ascii(), n@.len() >= 1, text_is_number(n@, 10),   // the token's regular expression
    ensures
        r is Ok <==> 0 <= text_value(n@, 10) <= usize::MAX,      //# C17 number.accepted_iff_in_the_range_of_its_operand_type
        r is Ok ==> r->Ok_0 as int == text_value(n@, 10) % 0x100000,       //# C17 number.accepted_with_its_value
//@end

//@action src/lib/preprocessor/preprocessor.rs s_byte_num = u_byte_num as nm_pp_s_byte_num_cast
//@contract
//@dropunused
    ensures r as u8 == n, //# C14,C11 number.unsigned_literal_keeps_its_bit_pattern
//@before n as i8 :: proof { assert((n as i8) as u8 == n) by (bit_vector); }
//@end

//@action src/lib/preprocessor/preprocessor.rs s_word_num = u_word_num as nm_pp_s_word_num_cast
//@contract
//@dropunused
    ensures r as u16 == n, //# C14,C11 number.unsigned_literal_keeps_its_bit_pattern
//@before n as i16 :: proof { assert((n as i16) as u16 == n) by (bit_vector); }
//@end

//@action src/lib/data_parser/data_parser.rs s_byte_num = u_byte_num as nm_ld_s_byte_num_cast
//@contract
//@dropunused
    ensures r as u8 == n, //# C12 number.unsigned_literal_keeps_its_bit_pattern
//@before n as i8 :: proof { assert((n as i8) as u8 == n) by (bit_vector); }
//@end

//@action src/lib/preprocessor/preprocessor.rs raw_addr = offset as nm_pp_raw_addr_offset
//@contract
//@dropunused
    ensures r == o, //# C14,C11 number.offset_is_the_address_as_it_stands
//@end

} // verus!
fn main() {}
