// Unit `loader` (C12, C09): the data loader's productions, cut verbatim from the generated
// data_parser.rs.  Contract of every production: the bytes of the directive lie at
// phys(DS, counter + i), i < size, in order, words low byte first; every other cell unchanged;
// counter' = counter + size; registers unchanged; no overflow, no index outside the memory.
verus! {

pub open spec fn start_of(vm: &VM, counter: usize) -> int { phys(vm.arch.ds, counter as int) }

//@action src/lib/data_parser/data_parser.rs set = "set", u_word_num as ld_set
//@contract
    ensures final(vm).arch.ds == n, *final(counter) == 0, final(vm).mem == old(vm).mem,
        final(vm).arch.cs == old(vm).arch.cs, final(vm).arch.ss == old(vm).arch.ss, final(vm).arch.es == old(vm).arch.es,
        final(vm).arch.ax == old(vm).arch.ax, final(vm).arch.flag == old(vm).arch.flag, final(vm).arch.sp == old(vm).arch.sp,
//@end

//@action src/lib/data_parser/data_parser.rs db = "db", s_byte_num as ld_db_value
//@contract
    requires *old(counter) <= 0x20000,
    ensures *final(counter) == *old(counter) + 1, final(vm).arch == old(vm).arch,
        forall|a: int| 0 <= a < 0x100000 ==> #[trigger] final(vm).mem[a] ==
            (if a == start_of(old(vm), *old(counter)) { n as u8 } else { old(vm).mem[a] }),
//@end

//@action src/lib/data_parser/data_parser.rs db = "db", "[", u_word_num, "]" as ld_db_zeros
//@contract
    requires *old(counter) <= 0x20000,
    ensures *final(counter) == *old(counter) + n, final(vm).arch == old(vm).arch,
        forall|a: int| 0 <= a < 0x100000 ==> #[trigger] final(vm).mem[a] ==
            (if rel(a, start_of(old(vm), *old(counter))) < n { 0u8 } else { old(vm).mem[a] }),
//@loop 0
        invariant
            addr == (start_of(old(vm), *old(counter)) + verif_it.index@) % 0x100000,
            vm.arch == old(vm).arch, *counter == *old(counter),
            forall|a: int| 0 <= a < 0x100000 ==> #[trigger] vm.mem[a] ==
                (if rel(a, start_of(old(vm), *old(counter))) < verif_it.index@ { 0u8 } else { old(vm).mem[a] }),
//@end
//@end

//@action src/lib/data_parser/data_parser.rs db = "db", "[", s_byte_num, ",", u_word_num, "]" as ld_db_fill
//@contract
    requires *old(counter) <= 0x20000,
    ensures *final(counter) == *old(counter) + n, final(vm).arch == old(vm).arch,
        forall|a: int| 0 <= a < 0x100000 ==> #[trigger] final(vm).mem[a] ==
            (if rel(a, start_of(old(vm), *old(counter))) < n { v as u8 } else { old(vm).mem[a] }),
//@loop 0
        invariant
            addr == (start_of(old(vm), *old(counter)) + verif_it.index@) % 0x100000,
            vm.arch == old(vm).arch, *counter == *old(counter),
            forall|a: int| 0 <= a < 0x100000 ==> #[trigger] vm.mem[a] ==
                (if rel(a, start_of(old(vm), *old(counter))) < verif_it.index@ { v as u8 } else { old(vm).mem[a] }),
//@end
//@end

//@action src/lib/data_parser/data_parser.rs dw = "dw", s_word_num as ld_dw_value
//@contract
    requires *old(counter) <= 0x20000,
    ensures *final(counter) == *old(counter) + 2, final(vm).arch == old(vm).arch,
        forall|a: int| 0 <= a < 0x100000 ==> #[trigger] final(vm).mem[a] ==
            (if rel(a, start_of(old(vm), *old(counter))) == 0 { ((n as u16) % 256) as u8 }
             else if rel(a, start_of(old(vm), *old(counter))) == 1 { ((n as u16) / 256) as u8 }
             else { old(vm).mem[a] }),
//@end

//@action src/lib/data_parser/data_parser.rs dw = "dw", "[", u_word_num, "]" as ld_dw_zeros
//@contract
    requires *old(counter) <= 0x20000,
    ensures *final(counter) == *old(counter) + 2 * n, final(vm).arch == old(vm).arch,
        forall|a: int| 0 <= a < 0x100000 ==> #[trigger] final(vm).mem[a] ==
            (if rel(a, start_of(old(vm), *old(counter))) < 2 * n { 0u8 } else { old(vm).mem[a] }),
//@loop 0
        invariant
            addr == (start_of(old(vm), *old(counter)) + verif_it.index@) % 0x100000,
            vm.arch == old(vm).arch, *counter == *old(counter),
            forall|a: int| 0 <= a < 0x100000 ==> #[trigger] vm.mem[a] ==
                (if rel(a, start_of(old(vm), *old(counter))) < verif_it.index@ { 0u8 } else { old(vm).mem[a] }),
//@end
//@end

//@action src/lib/data_parser/data_parser.rs dw = "dw", "[", s_word_num, ",", u_word_num, "]" as ld_dw_fill
//@contract
    requires *old(counter) <= 0x20000,
    ensures *final(counter) == *old(counter) + 2 * n, final(vm).arch == old(vm).arch,
        forall|a: int| 0 <= a < 0x100000 ==> #[trigger] final(vm).mem[a] ==
            (if rel(a, start_of(old(vm), *old(counter))) < 2 * n {
                (if rel(a, start_of(old(vm), *old(counter))) % 2 == 0 { ((v as u16) % 256) as u8 } else { ((v as u16) / 256) as u8 })
             } else { old(vm).mem[a] }),
//@loop 0
        invariant
            addr == (start_of(old(vm), *old(counter)) + 2 * verif_it.index@) % 0x100000,
            vm.arch == old(vm).arch, *counter == *old(counter),
            lb == (v as u16) % 256, hb == (v as u16) / 256,
            forall|a: int| 0 <= a < 0x100000 ==> #[trigger] vm.mem[a] ==
                (if rel(a, start_of(old(vm), *old(counter))) < 2 * verif_it.index@ {
                    (if rel(a, start_of(old(vm), *old(counter))) % 2 == 0 { lb } else { hb })
                 } else { old(vm).mem[a] }),
//@end
//@end

// ---- string forms: one byte per character (db), one zero-extended word per character (dw), quotes excluded
//@action src/lib/data_parser/data_parser.rs db = "db", r#"\"[[:ascii:]]*\""# as ld_db_string
//@contract
//@strslice
    requires *old(counter) <= 0x20000,
        q.is_ascii() && 2 <= q@.len() <= 0x10002,    // the token's regex: ASCII between two quotes; the assembler admits at most 65535 bytes per segment
    ensures *final(counter) == *old(counter) + (q@.len() - 2), final(vm).arch == old(vm).arch,
        forall|a: int| 0 <= a < 0x100000 ==> #[trigger] final(vm).mem[a] ==
            (if rel(a, start_of(old(vm), *old(counter))) < q@.len() - 2 { q@[1 + rel(a, start_of(old(vm), *old(counter)))] as u8 } else { old(vm).mem[a] }),
//@loop 0
        invariant
            q.is_ascii() && 2 <= q@.len() <= 0x10002, 0 <= verif_it.index@ <= q@.len() - 2,
            addr == (start_of(old(vm), *old(counter)) + verif_it.index@) % 0x100000,
            vm.arch == old(vm).arch, *counter == *old(counter),
            forall|a: int| 0 <= a < 0x100000 ==> #[trigger] vm.mem[a] ==
                (if rel(a, start_of(old(vm), *old(counter))) < verif_it.index@ { q@[1 + rel(a, start_of(old(vm), *old(counter)))] as u8 } else { old(vm).mem[a] }),
//@end
//@end

//@action src/lib/data_parser/data_parser.rs dw = "dw", r#"\"[[:ascii:]]*\""# as ld_dw_string
//@contract
//@strslice
    requires *old(counter) <= 0x20000,
        q.is_ascii() && 2 <= q@.len() <= 0x8002,
    ensures *final(counter) == *old(counter) + 2 * (q@.len() - 2), final(vm).arch == old(vm).arch,
        forall|a: int| 0 <= a < 0x100000 ==> #[trigger] final(vm).mem[a] ==
            (if rel(a, start_of(old(vm), *old(counter))) < 2 * (q@.len() - 2) {
                (if rel(a, start_of(old(vm), *old(counter))) % 2 == 0 { q@[1 + rel(a, start_of(old(vm), *old(counter))) / 2] as u8 } else { 0u8 })
             } else { old(vm).mem[a] }),
//@loop 0
        invariant
            q.is_ascii() && 2 <= q@.len() <= 0x8002, 0 <= verif_it.index@ <= q@.len() - 2,
            addr == (start_of(old(vm), *old(counter)) + 2 * verif_it.index@) % 0x100000,
            vm.arch == old(vm).arch, *counter == *old(counter),
            forall|a: int| 0 <= a < 0x100000 ==> #[trigger] vm.mem[a] ==
                (if rel(a, start_of(old(vm), *old(counter))) < 2 * verif_it.index@ {
                    (if rel(a, start_of(old(vm), *old(counter))) % 2 == 0 { q@[1 + rel(a, start_of(old(vm), *old(counter))) / 2] as u8 } else { 0u8 })
                 } else { old(vm).mem[a] }),
//@end
//@end

} // verus!
fn main() {}
