// Unit `lexer` (C16, C09): LexerHelper::get_line / get_newline_before of src/lib/preprocessor/lexer_helper.rs and
// get_err_pos of src/driver/error_helper.rs, verbatim, for newline lists of ANY length (rewrite R13 turns the
// `iter().enumerate()` loops into index loops; the loop invariants below close them without a bound).
// This unit replaces the bounded Kani stand-in b_lexer_get_line as the deciding check; `LexerHelper::new` (the scan of
// the text with char_indices: str/char reasoning) stays a bounded Kani unit and its result is the precondition `wf` here.
verus! {

//@item src/lib/preprocessor/lexer_helper.rs struct LexerHelper

/// what `LexerHelper::new` establishes: the byte positions of the newline characters, in file order, all inside the text
pub open spec fn lx_wf(s: Seq<usize>, len: usize) -> bool {
    &&& forall|i: int, j: int| 0 <= i < j < s.len() ==> s[i] < s[j]
    &&& forall|i: int| 0 <= i < s.len() ==> s[i] < len
    &&& len <= isize::MAX as usize          // a &str is never longer than isize::MAX bytes
}
/// strictly increasing naturals are at least their index: at most `len` newlines
pub proof fn lemma_ge_index(s: Seq<usize>, i: int)
    requires forall|a: int, b: int| 0 <= a < b < s.len() ==> s[a] < s[b], 0 <= i < s.len(),
    ensures s[i] >= i,
    decreases i
{
    if i > 0 { lemma_ge_index(s, i - 1); assert(s[i - 1] < s[i]); }
}
/// number of newline characters strictly before position `pos` = 0-based number of the line containing `pos`
/// (a newline character belongs to the line it ends)
pub open spec fn newlines_before(s: Seq<usize>, pos: usize) -> nat
    decreases s.len()
{
    if s.len() == 0 { 0 } else { newlines_before(s.drop_last(), pos) + if s.last() < pos { 1nat } else { 0nat } }
}
/// for an increasing list the count is the index of the first element >= pos
pub proof fn lemma_count_is_first_index(s: Seq<usize>, pos: usize, k: int)
    requires forall|i: int, j: int| 0 <= i < j < s.len() ==> s[i] < s[j],
        0 <= k <= s.len(), forall|i: int| 0 <= i < k ==> s[i] < pos, k < s.len() ==> s[k] >= pos,
    ensures newlines_before(s, pos) == k,
    decreases s.len()
{
    if s.len() > 0 {
        let t = s.drop_last();
        if k == s.len() {
            lemma_count_is_first_index(t, pos, k - 1);
        } else {
            assert(s.last() >= pos) by { if k < s.len() - 1 { assert(s[k] < s[s.len() - 1]); } }
            lemma_count_is_first_index(t, pos, k);
        }
    }
}

impl LexerHelper {
    pub closed spec fn v_list(&self) -> Seq<usize> { self.newline_list@ }
    pub closed spec fn v_len(&self) -> usize { self.input_len }
    pub open spec fn wf(&self) -> bool { lx_wf(self.v_list(), self.v_len()) }

//@fn src/lib/preprocessor/lexer_helper.rs get_line
//@contract
        requires self.wf(),
        ensures
            r.0 == newlines_before(self.v_list(), pos),                                         //# C16 lexer.get_line.line_number_counts_newlines_before
            r.0 <= self.v_list().len(),
            r.1 == (if r.0 == 0 { 0 } else { self.v_list()[r.0 - 1] + 1 }),                   //# C16 lexer.get_line.starts_after_the_previous_newline_or_at_0
            r.2 == (if r.0 < self.v_list().len() { self.v_list()[r.0 as int] }
                    else if self.v_len() > r.1 { self.v_len() } else { r.1 }),                  //# C16 lexer.get_line.ends_at_its_newline_or_end_of_input
            r.1 <= r.2,
            pos <= self.v_len() ==> r.1 <= pos <= r.2 <= self.v_len(),                          //# C16 lexer.get_line.contains_position
            forall|i: int| 0 <= i < self.v_list().len() ==> !(r.1 <= #[trigger] self.v_list()[i] < r.2), //# C16 lexer.get_line.no_newline_inside_the_line
//@loop 0
            invariant
                self.wf(),
                forall|i: int| 0 <= i < idx ==> self.newline_list@[i] < pos,
                start == (if idx == 0 { 0 } else { self.newline_list@[idx - 1] + 1 }),
//@end
//@before return (idx :: proof { lemma_count_is_first_index(self.newline_list@, pos, idx as int); }
//@before let end = :: proof { lemma_count_is_first_index(self.newline_list@, pos, self.newline_list@.len() as int); }
//@end

//@fn src/lib/preprocessor/lexer_helper.rs get_newline_before
//@contract
        requires self.wf(),
        ensures
            // number of newlines at or before position i, and the position of the first newline after i (of the last newline
            // when there is none after i; (0, 0) for a text without newline)
            r.0 <= self.v_list().len(),
            forall|k: int| 0 <= k < r.0 ==> self.v_list()[k] <= i,
            r.0 < self.v_list().len() ==> self.v_list()[r.0 as int] > i && r.1 == self.v_list()[r.0 as int],
            r.0 == self.v_list().len() && r.0 > 0 ==> r.1 == self.v_list()[r.0 - 1],
            self.v_list().len() == 0 ==> r == (0usize, 0usize),
//@loop 0
            invariant
                forall|k: int| 0 <= k < idx ==> self.newline_list@[k] <= i,
//@end
//@end
}

//@fn src/driver/error_helper.rs get_err_pos
//@contract
    requires l.wf(),
    ensures
        // exactly what unit `driver` assumes of get_err_pos (its stub contract), with err_line := newlines before + 1
        r.0 == newlines_before(l.v_list(), pos) + 1,                                             //# C16 lexer.get_err_pos.line_is_1_based_number_of_the_line_containing_pos
        r.1 <= r.2,
        pos <= l.v_len() ==> r.1 <= pos <= r.2,                                                  //# C16 lexer.get_err_pos.bounds_contain_position
        forall|i: int| 0 <= i < l.v_list().len() ==> !(r.1 <= #[trigger] l.v_list()[i] < r.2),  //# C16 lexer.get_err_pos.bounds_are_one_line
//@before (line + 1, :: proof { if l.v_list().len() > 0 { lemma_ge_index(l.v_list(), l.v_list().len() - 1); } }
//@end


// ---------------------------------------------------------------------------------------------------------------------------
// LexerHelper::new, verbatim (rewrite R16), for texts of ANY length and ANY characters.  ASSUMED: std's contract of
// str::char_indices / str::len (the k-th item is the byte offset and the value of the k-th character; offsets are strictly
// increasing and inside the text; a text is at most isize::MAX bytes).  The bounded Kani unit b_lexer_new runs the real std code on
// 31 strings with 1-, 2- and 3-byte characters (cross-check of exactly this assumption).
pub mod verif_ci {
    use vstd::prelude::*;
    pub uninterp spec fn n(s: &str) -> nat;                 // number of characters
    pub uninterp spec fn off(s: &str, k: int) -> usize;     // byte offset of character k
    pub uninterp spec fn chr(s: &str, k: int) -> char;      // character k
    pub uninterp spec fn blen(s: &str) -> usize;            // length in bytes
    #[verifier::external_body]
    pub broadcast proof fn axiom_offsets(s: &str, j: int, k: int)
        ensures 0 <= j < k < n(s) ==> #[trigger] off(s, j) < #[trigger] off(s, k),
    {}
    #[verifier::external_body]
    pub broadcast proof fn axiom_inside(s: &str, k: int)
        ensures 0 <= k < n(s) ==> #[trigger] off(s, k) < blen(s),
    {}
    #[verifier::external_body]
    pub broadcast proof fn axiom_len(s: &str)
        ensures #[trigger] blen(s) <= isize::MAX as usize, n(s) <= blen(s),
    {}
    #[verifier::external_body]
    pub fn char_count(s: &str) -> (r: usize) ensures r == n(s), { s.chars().count() }
    #[verifier::external_body]
    pub fn char_at(s: &str, k: usize) -> (r: (usize, char)) requires k < n(s), ensures r == (off(s, k as int), chr(s, k as int)), { s.char_indices().nth(k).unwrap() }
    #[verifier::external_body]
    pub fn byte_len(s: &str) -> (r: usize) ensures r == blen(s), { s.len() }
}
//@broadcast verif_ci::axiom_offsets, verif_ci::axiom_inside, verif_ci::axiom_len
/// byte offsets of the newline characters among the first k characters, in order
pub open spec fn nl_prefix(s: &str, k: int) -> Seq<usize>
    decreases k
{
    if k <= 0 { Seq::empty() } else if verif_ci::chr(s, k - 1) == '\n' { nl_prefix(s, k - 1).push(verif_ci::off(s, k - 1)) } else { nl_prefix(s, k - 1) }
}
impl LexerHelper {
    // #[derive(Default)] (dropped by R5): every field is its type's default
    #[verifier::external_body]
    pub fn default() -> (r: LexerHelper) ensures r.v_list() == Seq::<usize>::empty(), r.v_len() == 0, { LexerHelper { temp_line: 0, newline_list: Vec::new(), input_len: 0 } }

//@fn src/lib/preprocessor/lexer_helper.rs new as new_real
//@contract
//@charindices
        ensures
            r.v_list() == nl_prefix(input, verif_ci::n(input) as int),      //# C16 lexer.new.list_is_the_byte_offsets_of_the_newline_characters_in_order
            r.v_len() == verif_ci::blen(input),                              //# C16 lexer.new.input_len_is_the_byte_length
            r.wf(),                                                          //# C16 lexer.new.establishes_the_helper_invariant
//@loop 0
            invariant
                l.input_len == 0,
                l.newline_list@ == nl_prefix(input, verif_k as int),
                forall|a: int, b: int| 0 <= a < b < l.newline_list@.len() ==> l.newline_list@[a] < l.newline_list@[b],
                forall|a: int| 0 <= a < l.newline_list@.len() ==> l.newline_list@[a] < (if verif_k < verif_ci::n(input) { verif_ci::off(input, verif_k as int) } else { verif_ci::blen(input) }),
//@end
//@end
}

// ---------------------------------------------------------------------------------------------------------------------------
// preprocess() of src/driver/preprocess.rs, verbatim: which position a syntax / semantic diagnostic looks up (C16: "reports the
// line number, column and text of the line containing the offending token").  The assembler, its context and the helper's
// construction are stubs that record, in a ghost trace, the position of the token the assembler refused and the newline list
// the helper was built with; a proof block after the real `get_err_pos(..)` call (rewrite R7) records which position was
// looked up and which line came back.  The message text itself is opaque (R3; the source slice: R9).
pub tracked struct Trace {
    pub ghost nl: Seq<usize>,            // newline list of the helper built for this input
    pub ghost refused_at: Option<int>,   // start position of the token the assembler refused (UnrecognizedToken, incl. piggybacked errors)
}
pub tracked struct CiteLog { pub ghost cites: Seq<(int, int)> }   // (line cited, position looked up)
impl CiteLog {
    pub proof fn note_cite(tracked &mut self, line: int, pos: int)
        ensures final(self).cites == old(self).cites.push((line, pos)),
    { self.cites = self.cites.push((line, pos)); }
}
pub struct Token(pub usize, pub &'static str);
pub enum ParseError {
    UnrecognizedToken { token: (usize, Token, usize), expected: Vec<String> },
    Other,
}
pub struct PreprocessorContext;
pub struct PreprocessorOutput;
impl PreprocessorContext { #[verifier::external_body] pub fn default() -> (r: PreprocessorContext) { PreprocessorContext } }
impl PreprocessorOutput { #[verifier::external_body] pub fn default() -> (r: PreprocessorOutput) { PreprocessorOutput } }
pub struct Preprocessor;
impl Preprocessor {
    #[verifier::external_body]
    pub fn new() -> (r: Preprocessor) { Preprocessor }
    // positions LALRPOP reports are offsets into the text it was given (assumed)
    #[verifier::external_body]
    pub fn parse(&self, ctx: &mut PreprocessorContext, out: &mut PreprocessorOutput, input: &str, Tracked(tr): Tracked<&mut Trace>) -> (r: Result<(), ParseError>)
        ensures final(tr).nl == old(tr).nl,
            final(tr).refused_at == (match r { Err(ParseError::UnrecognizedToken { token, expected }) => Some(token.0 as int), _ => None }),
            r matches Err(ParseError::UnrecognizedToken { token, expected }) ==> token.0 <= input@.len() && expected@.len() > 0,
    { unimplemented!() }
}
impl LexerHelper {
    // stub with a ghost argument for preprocess(); its contract is the one PROVED of the real `new` above (extracted as new_real)
    #[verifier::external_body]
    pub fn new(input: &str, Tracked(tr): Tracked<&mut Trace>) -> (r: LexerHelper)
        ensures r.wf(), final(tr).nl == r.v_list(), final(tr).refused_at == old(tr).refused_at, input@.len() <= r.v_len(),
    { unimplemented!() }
}

//@fn src/driver/preprocess.rs preprocess
//@contract
//@ghost LexerHelper::new :: Tracked(verif_tr)
//@ghost preprocessor.parse :: Tracked(verif_tr)
//@after get_err_pos :: proof { verif_ct.note_cite(line as int, ($2) as int); }
    ensures
        // a diagnostic about a refused token looks up exactly that token's start position, once, and cites the line containing it
        r is Err && final(verif_tr).refused_at is Some ==> final(verif_ct).cites == old(verif_ct).cites.push(
            ((newlines_before(final(verif_tr).nl, final(verif_tr).refused_at->0 as usize) + 1) as int, final(verif_tr).refused_at->0)), //# C16 diagnostic.cites_the_line_of_the_refused_tokens_start
        // nothing is looked up otherwise
        r is Ok || final(verif_tr).refused_at is None ==> final(verif_ct).cites == old(verif_ct).cites, //# C16 diagnostic.no_other_lookup
        r is Ok <==> final(verif_tr).refused_at is None && !(r is Err),
//@end

} // verus!
fn main() {}
