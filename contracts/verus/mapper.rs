// Unit `mapper` (C16): SourceMapper of src/lib/util/preprocessor_util.rs, verbatim.
// Abstract view: source_map = output line -> source position; output_next = number of entries made.
use std::collections::HashMap;
verus! {

//@item src/lib/util/preprocessor_util.rs struct SourceMapper

impl SourceMapper {
    // abstract view of the private fields
    pub closed spec fn v_lock(&self) -> u16 { self.lock }
    pub closed spec fn v_last(&self) -> usize { self.source_last }
    pub closed spec fn v_next(&self) -> usize { self.output_next }
    pub closed spec fn v_map(&self) -> Map<usize, usize> { self.source_map@ }
//@fn src/lib/util/preprocessor_util.rs lock_source
//@contract
        requires old(self).v_lock() < u16::MAX,   // macro uses nest far less deep than 65535
        ensures final(self).v_lock() == old(self).v_lock() + 1, final(self).v_last() == old(self).v_last(),
            final(self).v_next() == old(self).v_next(), final(self).v_map() == old(self).v_map(),
//@end
//@fn src/lib/util/preprocessor_util.rs unlock_source
//@contract
        requires old(self).v_lock() > 0,          // balanced: every unlock follows its lock (macro_use)
        ensures final(self).v_lock() == old(self).v_lock() - 1, final(self).v_last() == old(self).v_last(),
            final(self).v_next() == old(self).v_next(), final(self).v_map() == old(self).v_map(),
//@end
//@fn src/lib/util/preprocessor_util.rs set_source
//@contract
        ensures final(self).v_last() == (if old(self).v_lock() == 0 { source_char } else { old(self).v_last() }),
            final(self).v_lock() == old(self).v_lock(), final(self).v_next() == old(self).v_next(),
            final(self).v_map() == old(self).v_map(),
//@end
//@fn src/lib/util/preprocessor_util.rs add_entry
//@contract
        requires old(self).v_next() < usize::MAX,
        ensures
            // instruction number output_next is mapped to this position, or, inside a macro expansion (lock > 0),
            // to the position of the outermost macro use
            final(self).v_map() == old(self).v_map().insert(old(self).v_next(),
                if old(self).v_lock() != 0 { old(self).v_last() } else { source_char }),
            final(self).v_next() == old(self).v_next() + 1,
            final(self).v_last() == (if old(self).v_lock() != 0 { old(self).v_last() } else { source_char }),
            final(self).v_lock() == old(self).v_lock(),
//@end
}

} // verus!
fn main() {}
