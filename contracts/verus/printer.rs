// Unit `printer` (C17, C09): the five Print productions of src/driver/print.rs (generated), verbatim.
// The machine is read-only by type (`vm: &VM`).  Output is the ghost log (rewrite R2): one entry per
// print!/println!, holding the argument values; a separator (tab / row break) is an entry without arguments.
verus! {

//@item src/lib/util/flag_util.rs enum Flags
//@item src/lib/arch.rs const FLAG_OVERFLOW
//@item src/lib/arch.rs const FLAG_DIRECTION
//@item src/lib/arch.rs const FLAG_INTERRUPT
//@item src/lib/arch.rs const FLAG_TRAP
//@item src/lib/arch.rs const FLAG_SIGN
//@item src/lib/arch.rs const FLAG_ZERO
//@item src/lib/arch.rs const FLAG_AUX_CARRY
//@item src/lib/arch.rs const FLAG_PARITY
//@item src/lib/arch.rs const FLAG_CARRY
pub open spec fn flag_pos(f: Flags) -> int {
    match f { Flags::OVERFLOW => 2048int, Flags::DIRECTION => 1024, Flags::INTERRUPT => 512, Flags::TRAP => 256,
              Flags::SIGN => 128, Flags::ZERO => 64, Flags::AUX_CARRY => 16, Flags::PARITY => 4, Flags::CARRY => 1 }
}
pub open spec fn bit(reg: u16, f: Flags) -> int { (reg as int / flag_pos(f)) % 2 }
// the REAL get_flag_state (flag_util.rs, verbatim); the bit-vector facts are hints
pub proof fn lemma_flag_bits(reg: u16)
    ensures
        (reg & (1u16 << 11) != 0) == ((reg / 2048) % 2 == 1), (reg & (1u16 << 10) != 0) == ((reg / 1024) % 2 == 1),
        (reg & (1u16 << 9) != 0) == ((reg / 512) % 2 == 1), (reg & (1u16 << 8) != 0) == ((reg / 256) % 2 == 1),
        (reg & (1u16 << 7) != 0) == ((reg / 128) % 2 == 1), (reg & (1u16 << 6) != 0) == ((reg / 64) % 2 == 1),
        (reg & (1u16 << 4) != 0) == ((reg / 16) % 2 == 1), (reg & (1u16 << 2) != 0) == ((reg / 4) % 2 == 1),
        (reg & (1u16 << 0) != 0) == ((reg / 1) % 2 == 1),
{
    assert((reg & (1u16 << 11) != 0) == ((reg / 2048) % 2 == 1)) by (bit_vector);
    assert((reg & (1u16 << 10) != 0) == ((reg / 1024) % 2 == 1)) by (bit_vector);
    assert((reg & (1u16 << 9) != 0) == ((reg / 512) % 2 == 1)) by (bit_vector);
    assert((reg & (1u16 << 8) != 0) == ((reg / 256) % 2 == 1)) by (bit_vector);
    assert((reg & (1u16 << 7) != 0) == ((reg / 128) % 2 == 1)) by (bit_vector);
    assert((reg & (1u16 << 6) != 0) == ((reg / 64) % 2 == 1)) by (bit_vector);
    assert((reg & (1u16 << 4) != 0) == ((reg / 16) % 2 == 1)) by (bit_vector);
    assert((reg & (1u16 << 2) != 0) == ((reg / 4) % 2 == 1)) by (bit_vector);
    assert((reg & (1u16 << 0) != 0) == ((reg / 1) % 2 == 1)) by (bit_vector);
}
//@fn src/lib/util/flag_util.rs get_flag_state
//@contract
    ensures r == (bit(reg, flag) == 1),
//@before match flag :: proof { lemma_flag_bits(reg); }
//@end

pub open spec fn b2u(b: int) -> u64 { if b == 1 { 1u64 } else { 0u64 } }

//@action src/driver/print.rs Print = "print", "flags" as pr_flags
//@contract
    ensures
        final(verif_log).entries.len() == old(verif_log).entries.len() + 1,
        final(verif_log).entries[old(verif_log).entries.len() as int] == seq![
            b2u(bit(vm.arch.flag, Flags::OVERFLOW)), b2u(bit(vm.arch.flag, Flags::DIRECTION)), b2u(bit(vm.arch.flag, Flags::INTERRUPT)),
            b2u(bit(vm.arch.flag, Flags::TRAP)), b2u(bit(vm.arch.flag, Flags::SIGN)), b2u(bit(vm.arch.flag, Flags::ZERO)),
            b2u(bit(vm.arch.flag, Flags::AUX_CARRY)), b2u(bit(vm.arch.flag, Flags::PARITY)), b2u(bit(vm.arch.flag, Flags::CARRY))],
//@end

//@action src/driver/print.rs Print = "print", "reg" as pr_reg
//@contract
    ensures
        final(verif_log).entries.len() == old(verif_log).entries.len() + 7,
        final(verif_log).entries[old(verif_log).entries.len() as int + 0] == seq![vm.arch.ax as u64, vm.arch.sp as u64],
        final(verif_log).entries[old(verif_log).entries.len() as int + 1] == seq![vm.arch.bx as u64, vm.arch.bp as u64],
        final(verif_log).entries[old(verif_log).entries.len() as int + 2] == seq![vm.arch.cx as u64, vm.arch.si as u64],
        final(verif_log).entries[old(verif_log).entries.len() as int + 3] == seq![vm.arch.dx as u64, vm.arch.di as u64],
        final(verif_log).entries[old(verif_log).entries.len() as int + 4] == Seq::<u64>::empty(),
        final(verif_log).entries[old(verif_log).entries.len() as int + 5] == seq![vm.arch.cs as u64, vm.arch.ss as u64],
        final(verif_log).entries[old(verif_log).entries.len() as int + 6] == seq![vm.arch.ds as u64, vm.arch.es as u64],
//@end

/// the log of a dump of mem[start .. i): one value entry per byte in address order, an empty entry (tab) after
/// every 8th and another empty entry (row break) after every 16th value of the dump
pub open spec fn dump(vm: &VM, start: int, i: int) -> Seq<Seq<u64>>
    decreases i - start
{
    if i <= start { Seq::<Seq<u64>>::empty() } else {
        let k = (i - 1 - start) % 16;
        let a = dump(vm, start, i - 1).push(seq![vm.mem[i - 1] as u64]);
        let b = if (k + 1) % 8 == 0 { a.push(Seq::<u64>::empty()) } else { a };
        if (k + 1) % 16 == 0 { b.push(Seq::<u64>::empty()) } else { b }
    }
}
pub open spec fn closing(n: int) -> Seq<Seq<u64>> {
    if n % 16 != 0 { seq![Seq::<u64>::empty()] } else { Seq::<Seq<u64>>::empty() }
}

//@action src/driver/print.rs Print = "print", "mem", raw_addr, "->", raw_addr as pr_mem_range
//@contract
    requires start < 0x100000, end < 0x100000,   // established by raw_addr (value mod 2^20)
    ensures
        start > end ==> final(verif_log).entries =~= old(verif_log).entries.push(seq![start as u64, end as u64]),
        start <= end ==> final(verif_log).entries =~= old(verif_log).entries + dump(vm, start as int, end + 1) + closing(end + 1 - start),
//@loop 0
            invariant
                start <= end < 0x100000,
                0 <= ctr < 16, ctr == (i - start) % 16,
                verif_log.entries =~= old(verif_log).entries + dump(vm, start as int, i as int),
//@end
//@end

// LALRPOP's error type as far as the productions construct it (`error!` / explicit Err(..))
pub struct Token(pub usize, pub &'static str);
pub enum ParseError {
    UnrecognizedToken { token: (usize, Token, usize), expected: Vec<String> },
    Other,
}

//@action src/driver/print.rs Print = "print", "mem", raw_addr, ":", raw_addr as pr_mem_len
//@contract
    requires start < 0x100000, offset < 0x100000,
    ensures
        // a range that leaves the 1 MB space is reported, and nothing is printed
        start + offset >= 0x100000 ==> r.is_err() && final(verif_log).entries =~= old(verif_log).entries,
        start + offset < 0x100000 ==> r.is_ok() && final(verif_log).entries =~= old(verif_log).entries + dump(vm, start as int, start + offset + 1) + closing(offset + 1),
//@loop 0
            invariant
                start <= end < 0x100000, end == start + offset,
                0 <= ctr < 16, ctr == (i - start) % 16,
                verif_log.entries =~= old(verif_log).entries + dump(vm, start as int, i as int),
//@end
//@end

//@action src/driver/print.rs Print = "print", "mem", ":", raw_addr as pr_mem_ds
//@contract
    requires offset < 0x100000,
    ensures
        vm.arch.ds as int * 16 + offset >= 0x100000 ==> final(verif_log).entries.len() == old(verif_log).entries.len() + 1
            && final(verif_log).entries[old(verif_log).entries.len() as int] == seq![(vm.arch.ds as int * 16) as u64, (vm.arch.ds as int * 16 + offset) as u64],
        vm.arch.ds as int * 16 + offset < 0x100000 ==> final(verif_log).entries =~= old(verif_log).entries
            + dump(vm, vm.arch.ds as int * 16, vm.arch.ds as int * 16 + offset + 1) + closing(offset + 1),
//@loop 0
            invariant
                start <= end < 0x100000, end == start + offset, start == vm.arch.ds as int * 16,
                0 <= ctr < 16, ctr == (i - start) % 16,
                verif_log.entries =~= old(verif_log).entries + dump(vm, start as int, i as int),
//@end
//@end

} // verus!
fn main() {}
