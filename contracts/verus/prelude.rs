// Shared prelude of every Verus unit: types cut verbatim from the crate, the assumed
// contracts of the L0 helpers (each one is DISCHARGED BY KANI in unit l0_* -- named next to it),
// and the ghost I/O log that replaces print!/stdin (extractor rewrites R2-R4).
use vstd::prelude::*;
use vstd::std_specs::convert::*;

verus! {

pub mod ax {
    use vstd::prelude::*;
    use vstd::std_specs::convert::*;
    // std: `impl<T> From<T> for T` (hence Into) is the identity; vstd has no spec for the usize instance
    #[verifier::external_body]
    pub broadcast proof fn axiom_usize_into_usize(x: usize)
        ensures #[trigger] IntoSpec::<usize>::into_spec(x) == x, <usize as IntoSpec<usize>>::obeys_into_spec(),
    {}
    #[verifier::external_body]
    pub broadcast proof fn axiom_usize_obeys_into()
        ensures #[trigger] <usize as IntoSpec<usize>>::obeys_into_spec(),
    {}
}
broadcast use {ax::axiom_usize_into_usize, ax::axiom_usize_obeys_into, vstd::std_specs::hash::group_hash_axioms, ax2::axiom_str_key_contains, ax2::axiom_str_key_maps, ax2::axiom_str_set_contains, ax2::axiom_str_set_differ, ax2::axiom_string_ext /*@broadcast_extra*/};

// looking a String key up by a &str: std's Borrow<str> for String hashes and compares like the String (assumed)
pub use ax2::has_key;
pub use ax2::has_elem;
pub mod ax2 {
    use vstd::prelude::*;
    use vstd::std_specs::hash::*;
    pub open spec fn has_key<V>(m: Map<String, V>, k: Seq<char>) -> bool { exists|s: String| #[trigger] m.contains_key(s) && s@ == k }
    #[verifier::external_body]
    pub broadcast proof fn axiom_str_key_contains<V>(m: Map<String, V>, k: &str)
        ensures #[trigger] contains_borrowed_key::<String, V, str>(m, k) <==> has_key(m, k@),
    {}
    #[verifier::external_body]
    pub broadcast proof fn axiom_str_key_maps<V>(m: Map<String, V>, k: &str, v: V)
        ensures #[trigger] maps_borrowed_key_to_value::<String, V, str>(m, k, v) <==> (exists|s: String| #[trigger] m.contains_key(s) && s@ == k@ && m[s] == v),
    {}
    // the same for a HashSet<String> queried / shrunk with a &str
    pub open spec fn has_elem(m: Set<String>, k: Seq<char>) -> bool { exists|s: String| #[trigger] m.contains(s) && s@ == k }
    #[verifier::external_body]
    pub broadcast proof fn axiom_str_set_contains(m: Set<String>, k: &str)
        ensures #[trigger] set_contains_borrowed_key::<String, str>(m, k) <==> has_elem(m, k@),
    {}
    #[verifier::external_body]
    pub broadcast proof fn axiom_str_set_differ(a: Set<String>, b: Set<String>, k: &str)
        ensures #[trigger] sets_differ_by_borrowed_key::<String, str>(a, b, k) ==> (forall|s: String| #[trigger] b.contains(s) <==> a.contains(s) && s@ != k@),
    {}
    // two Strings with the same characters are the same String
    #[verifier::external_body]
    pub broadcast proof fn axiom_string_ext(a: String, b: String)
        ensures #[trigger] a@ == #[trigger] b@ ==> a == b,
    {}
}


//@item src/lib/vm.rs const MB
//@item src/lib/arch.rs struct i8086
//@item src/lib/vm.rs struct VM

pub open spec fn phys(seg: u16, off: int) -> int { (seg as int * 16 + off) % 0x100000 }
/// position of address `a` relative to `s`, going upwards and wrapping at 1 MB
pub open spec fn rel(a: int, s: int) -> int { (a - s + 0x100000) % 0x100000 }

//@fn src/lib/util/address.rs make_valid_address
//@contract
    requires <T as IntoSpec<usize>>::obeys_into_spec(),
    ensures r == IntoSpec::<usize>::into_spec(v) % (MB as usize), r < MB,
//@end

// the real generic function (`v + inc` on T: Add through vstd's AddSpec); weakest precondition: the addition is defined.
// (Kani unit l0_inc_addr proves the same for the usize instance bit-precisely.)
//@fn src/lib/util/address.rs inc_addr
//@contract
    requires <T as vstd::std_specs::ops::AddSpec<T>>::obeys_add_spec(), <T as vstd::std_specs::ops::AddSpec<T>>::add_req(v, inc), <T as IntoSpec<usize>>::obeys_into_spec(),
    ensures r == IntoSpec::<usize>::into_spec(<T as vstd::std_specs::ops::AddSpec<T>>::add_spec(v, inc)) % (MB as usize), r < MB,
//@end

pub struct Address;
impl Address {
//@fn src/lib/util/address.rs calculate_from_offset
//@contract
        requires <T as IntoSpec<usize>>::obeys_into_spec(), <V as IntoSpec<usize>>::obeys_into_spec(), <usize as IntoSpec<usize>>::obeys_into_spec(),
            IntoSpec::<usize>::into_spec(base) <= 0xFFFF, IntoSpec::<usize>::into_spec(offset) <= 0x7FFF_FFFF,
        ensures r == (IntoSpec::<usize>::into_spec(base) * 16 + IntoSpec::<usize>::into_spec(offset)) % (MB as int), r < MB,
//@end
}

// the real function; the two bit-vector facts are hints (Kani unit l0_separate_bytes proves the same bit-precisely)
//@item src/lib/util/data_util.rs const LOWER_BYTE
//@fn src/lib/util/data_util.rs separate_bytes
//@contract
    ensures r.0 == (val as u16) / 256, r.1 == (val as u16) % 256,
//@before let lb = :: proof { assert(((val & 0xFFi16) as u8) == ((val as u16) % 256) as u8) by (bit_vector); assert((((val & !0xFFi16) >> 8) as u8) == ((val as u16) / 256) as u8) by (bit_vector); }
//@end


// ---- ghost output log (extractor rewrite R2) ---------------------------------------------
// one entry per print!/println! executed: `entries` = the argument values in order,
// `lits` = index K of the format literal (table at the top of the generated file)
pub tracked struct OutLog { pub ghost entries: Seq<Seq<u64>>, pub ghost lits: Seq<int> }
// ghost input: the lines still pending on stdin (each including its newline, if any), universally quantified
pub tracked struct InLog { pub ghost lines: Seq<Seq<u8>> }
/// the bytes of a String (uninterpreted; tied to as_bytes below)
pub uninterp spec fn bytes_of(s: String) -> Seq<u8>;
pub assume_specification [std::string::String::as_bytes] (s: &String) -> (r: &[u8])
    ensures r@ == bytes_of(*s);
// std integer helpers that vstd leaves unspecified: their documented meaning (exact and total), so that code written with
// them stays inside the verified subset instead of ending undecided
pub assume_specification [u8::overflowing_add] (a: u8, b: u8) -> (r: (u8, bool))
    ensures r.0 as int == (a + b) % 0x100, r.1 == (a + b > u8::MAX);
pub assume_specification [u8::overflowing_sub] (a: u8, b: u8) -> (r: (u8, bool))
    ensures r.0 as int == (a - b) % 0x100, r.1 == (a < b);
pub assume_specification [u16::overflowing_add] (a: u16, b: u16) -> (r: (u16, bool))
    ensures r.0 as int == (a + b) % 0x10000, r.1 == (a + b > u16::MAX);
pub assume_specification [u16::overflowing_sub] (a: u16, b: u16) -> (r: (u16, bool))
    ensures r.0 as int == (a - b) % 0x10000, r.1 == (a < b);
pub assume_specification [u32::overflowing_add] (a: u32, b: u32) -> (r: (u32, bool))
    ensures r.0 as int == (a + b) % 0x1_0000_0000, r.1 == (a + b > u32::MAX);
pub assume_specification [u32::overflowing_sub] (a: u32, b: u32) -> (r: (u32, bool))
    ensures r.0 as int == (a - b) % 0x1_0000_0000, r.1 == (a < b);
pub assume_specification [u16::swap_bytes] (a: u16) -> (r: u16)
    ensures r as int == (a % 256) * 256 + a / 256;
pub assume_specification [i8::wrapping_neg] (a: i8) -> (r: i8)
    ensures r as int == (if a == i8::MIN { a as int } else { -(a as int) });
pub assume_specification [i16::wrapping_neg] (a: i16) -> (r: i16)
    ensures r as int == (if a == i16::MIN { a as int } else { -(a as int) });
// text helpers without a Verus specification: the result is an UNINTERPRETED function of the text.  Code that starts to use
// them stays inside the verified subset; an obligation that depends on the resulting text is then no longer provable and is
// reported as that obligation (it was discharged on the pinned tree), instead of the whole function ending undecided.
pub uninterp spec fn trim_end_of(s: Seq<char>) -> Seq<char>;
pub uninterp spec fn trim_start_of(s: Seq<char>) -> Seq<char>;
pub assume_specification [str::trim_end] (s: &str) -> (r: &str) ensures r@ == trim_end_of(s@);
pub assume_specification [str::trim_start] (s: &str) -> (r: &str) ensures r@ == trim_start_of(s@);
/// the characters a byte sequence decodes to (uninterpreted; nothing is decoded from nothing)
pub uninterp spec fn chars_of(b: Seq<u8>) -> Seq<char>;
/// token view of a text: what the downstream lexers see (blanks separate, every punctuation character is a token of its own).
/// Uninterpreted for the texts the productions receive as parameters; literal tokens and decimal renderings are named.
pub uninterp spec fn toks(s: Seq<char>) -> Seq<Seq<char>>;
/// literal token number `id` of this run's table (printed at the top of the generated file)
pub uninterp spec fn lit_tok(id: int) -> Seq<char>;
/// decimal rendering of an integer by `{}` (uninterpreted; one token)
pub uninterp spec fn dec_tok(n: int) -> Seq<char>;
pub mod verif_io {
    use vstd::prelude::*;
    use super::OutLog;
    use super::toks;
    // R14: format!(lit, args..) in an emitting production -> a text whose token view is the literal's tokens interleaved with the
    // token views of the arguments, in order (the extractor tokenises the literal; arguments are Strings -> toks(x@), integers -> dec_tok)
    #[verifier::external_body]
    pub fn fmt_toks(Ghost(t): Ghost<Seq<Seq<char>>>) -> (r: String)
        ensures toks(r@) == t,
    { String::new() }
    #[verifier::external_body]
    pub fn out0(Tracked(log): Tracked<&mut OutLog>, k: usize)
        ensures final(log).entries == old(log).entries.push(Seq::<u64>::empty()), final(log).lits == old(log).lits.push(k as int),
    { }
    #[verifier::external_body]
    pub fn out1(Tracked(log): Tracked<&mut OutLog>, k: usize, a0: u64)
        ensures final(log).entries == old(log).entries.push(seq![a0]), final(log).lits == old(log).lits.push(k as int),
    { }
    #[verifier::external_body]
    pub fn out2(Tracked(log): Tracked<&mut OutLog>, k: usize, a0: u64, a1: u64)
        ensures final(log).entries == old(log).entries.push(seq![a0, a1]), final(log).lits == old(log).lits.push(k as int),
    { }
    #[verifier::external_body]
    pub fn out3(Tracked(log): Tracked<&mut OutLog>, k: usize, a0: u64, a1: u64, a2: u64)
        ensures final(log).entries == old(log).entries.push(seq![a0, a1, a2]), final(log).lits == old(log).lits.push(k as int),
    { }
    #[verifier::external_body]
    pub fn out4(Tracked(log): Tracked<&mut OutLog>, k: usize, a0: u64, a1: u64, a2: u64, a3: u64)
        ensures final(log).entries == old(log).entries.push(seq![a0, a1, a2, a3]), final(log).lits == old(log).lits.push(k as int),
    { }
    #[verifier::external_body]
    pub fn out5(Tracked(log): Tracked<&mut OutLog>, k: usize, a0: u64, a1: u64, a2: u64, a3: u64, a4: u64)
        ensures final(log).entries == old(log).entries.push(seq![a0, a1, a2, a3, a4]), final(log).lits == old(log).lits.push(k as int),
    { }
    #[verifier::external_body]
    pub fn out6(Tracked(log): Tracked<&mut OutLog>, k: usize, a0: u64, a1: u64, a2: u64, a3: u64, a4: u64, a5: u64)
        ensures final(log).entries == old(log).entries.push(seq![a0, a1, a2, a3, a4, a5]), final(log).lits == old(log).lits.push(k as int),
    { }
    #[verifier::external_body]
    pub fn out7(Tracked(log): Tracked<&mut OutLog>, k: usize, a0: u64, a1: u64, a2: u64, a3: u64, a4: u64, a5: u64, a6: u64)
        ensures final(log).entries == old(log).entries.push(seq![a0, a1, a2, a3, a4, a5, a6]), final(log).lits == old(log).lits.push(k as int),
    { }
    #[verifier::external_body]
    pub fn out8(Tracked(log): Tracked<&mut OutLog>, k: usize, a0: u64, a1: u64, a2: u64, a3: u64, a4: u64, a5: u64, a6: u64, a7: u64)
        ensures final(log).entries == old(log).entries.push(seq![a0, a1, a2, a3, a4, a5, a6, a7]), final(log).lits == old(log).lits.push(k as int),
    { }
    #[verifier::external_body]
    pub fn out9(Tracked(log): Tracked<&mut OutLog>, k: usize, a0: u64, a1: u64, a2: u64, a3: u64, a4: u64, a5: u64, a6: u64, a7: u64, a8: u64)
        ensures final(log).entries == old(log).entries.push(seq![a0, a1, a2, a3, a4, a5, a6, a7, a8]), final(log).lits == old(log).lits.push(k as int),
    { }
    // R2: an error object printed with {} has no numeric rendering
    #[verifier::external_body]
    pub fn opaque_u64() -> (r: u64) { 0 }
    // R4: reading a line consumes the first pending line of the ghost input (end of input = nothing read, Ok(0));
    // a read error changes nothing that is modelled
    pub struct IoError;
    #[verifier::external_body]
    pub fn read_line(Tracked(inp): Tracked<&mut super::InLog>, s: &mut String) -> (r: Result<usize, IoError>)
        requires old(s)@.len() == 0,
        ensures
            r.is_ok() ==> super::bytes_of(*final(s)) == (if old(inp).lines.len() > 0 { old(inp).lines[0] } else { Seq::<u8>::empty() })
                && final(s)@ == super::chars_of(super::bytes_of(*final(s)))
                // Ok(n): n is the number of bytes read, 0 exactly at end of input (a pending line is never empty: it holds at least its newline or a character)
                && r->Ok_0 == super::bytes_of(*final(s)).len()
                && final(inp).lines == (if old(inp).lines.len() > 0 { old(inp).lines.drop_first() } else { old(inp).lines }),
            r.is_err() ==> final(inp).lines == old(inp).lines,
    { unimplemented!() }
    // R8: `s == "literal"` on a String compares the characters
    #[verifier::external_body]
    pub fn str_eq(a: &String, b: &str) -> (r: bool)
        ensures r == (a@ == b@),
    { a == b }
    // R15: the text produced by String::replace is not modelled
    #[verifier::external_body]
    pub fn str_replace(x: &String, a: &String, b: &String) -> (r: String) { x.replace(a.as_str(), b.as_str()) }
    #[verifier::external_body]
    pub fn strref_eq(a: &str, b: &str) -> (r: bool)
        ensures r == (a@ == b@),
    { a == b }
    // R8: flushing stdout has no effect that is modelled
    #[verifier::external_body]
    pub fn flush() -> (r: Result<(), IoError>) { Ok(()) }
    // R9: a String printed in a message is logged as an (uninterpreted) function of its characters
    pub uninterp spec fn str_id_of(s: Seq<char>) -> u64;
    #[verifier::external_body]
    pub fn str_id(s: &String) -> (r: u64)
        ensures r == str_id_of(s@),
    { 0 }
    // R11: byte slicing and byte length of ASCII text (one byte per character)
    #[verifier::external_body]
    pub fn str_slice<'a>(s: &'a str, a: usize, b: usize) -> (r: &'a str)
        requires s.is_ascii(), a <= b <= s@.len(),
        ensures r@ == s@.subrange(a as int, b as int), r.is_ascii(),
    { &s[a..b] }
    #[verifier::external_body]
    pub fn str_len(s: &str) -> (r: usize)
        requires s.is_ascii(),
        ensures r == s@.len(),
    { s.len() }
    // R12: the bytes of ASCII text, in order
    #[verifier::external_body]
    pub fn str_bytes_vec(s: &str) -> (r: Vec<u8>)
        requires s.is_ascii(),
        ensures r@.len() == s@.len(), forall|i: int| 0 <= i < s@.len() ==> r@[i] == s@[i] as u8,
    { s.bytes().collect() }
    // R3: format!(..) -- the text of a message is not modelled
    #[verifier::external_body]
    pub fn opaque_string() -> (r: String) { String::new() }
}

} // verus!
