"""Own driver for plain #[kani::proof] harnesses: Kani compiles (cargo kani --only-codegen), then the
same goto pipeline Kani's driver runs (goto-cc link + entry point, goto-instrument x3) and CBMC in
TEXT mode.  Reason: Kani always runs CBMC with --json-ui, in which CBMC prints a trace for every
failed property -- including Kani's own reachability probes -- and with the 1 MB memory object
that costs 80 s / 11 GB per harness (SAT) or does not finish (SMT).  In text mode the SMT back end
(z3, QF_AUFBV, arrays kept as arrays) decides the same harness in 1-6 s.

Result lines:  [name] line N [KANI_CHECK_ID..] "description": SUCCESS|FAILURE
  *.reachability_check.* : Kani's reachability probes (FAILURE = reachable) -- ignored
  *.cover.*              : kani::cover!(c) is assert(!c): FAILURE = SATISFIED
  anything else FAILURE  : a refuted check
"""
import glob
import json
import os
import re
import subprocess
import time
from concurrent.futures import ThreadPoolExecutor
from typing import Dict, List

from kani_run import HResult, KANI_FLAGS
from scratch import ENV, Undecided

KBIN = os.path.expanduser("~/.kani/kani-0.68.0/bin")
KLIB = os.path.expanduser("~/.kani/kani-0.68.0/library/kani/kani_lib.c")
CBMC_BASE = ["--no-malloc-may-fail", "--no-undefined-shift-check", "--no-signed-overflow-check", "--nan-check",
             "--no-self-loops-to-assumptions", "--no-pointer-primitive-check", "--object-bits", "16", "--slice-formula"]


def codegen(dst: str, fq_names: List[str], log: str) -> Dict[str, dict]:
    """compile the selected harnesses; returns pretty_name -> metadata record"""
    cmd = ["cargo", "kani"] + KANI_FLAGS + ["--only-codegen", "--exact"]
    for h in fq_names:
        cmd += ["--harness", h]
    t0 = time.time()
    p = subprocess.run(cmd, cwd=dst, env=ENV, stdout=subprocess.PIPE, stderr=subprocess.STDOUT, text=True, errors="replace",
                       timeout=3600)
    with open(log, "a") as f:
        f.write("$ " + " ".join(cmd[:12]) + f" ... ({len(fq_names)} harnesses)\n" + p.stdout[-6000:] + f"\n[codegen {time.time() - t0:.1f}s]\n")
    if p.returncode != 0:
        raise Undecided("the annotated copy does not compile under Kani:\n" + "\n".join(
            l for l in p.stdout.split("\n") if not l.startswith("warning"))[-6000:])
    meta = {}
    for mf in glob.glob(os.path.join(dst, "target/kani/*/debug/build/emulator_8086/*/out/emulator_8086_lib-*.kani-metadata.json")):
        if os.path.getmtime(mf) < t0 - 5:
            continue
        for h in json.load(open(mf))["proof_harnesses"]:
            meta[h["pretty_name"]] = h
    return meta


LINE_RE = re.compile(r"^\[(?P<name>[^\]]+)\] (?:line \d+ )?(?P<rest>.*): (?P<st>SUCCESS|FAILURE)$")


def parse_text(out: str) -> HResult:
    r = HResult("")
    n = 0
    cover_seen, cover_sat = 0, 0
    done = "VERIFICATION SUCCESSFUL" in out or "VERIFICATION FAILED" in out
    for ln in out.split("\n"):
        m = LINE_RE.match(ln)
        if not m:
            continue
        name, rest, st = m.group("name"), m.group("rest"), m.group("st")
        if ".reachability_check." in name:
            continue
        if ".cover." in name:
            cover_seen += 1
            cover_sat += st == "FAILURE"
            continue
        n += 1
        if st == "FAILURE":
            desc = re.sub(r"\[KANI_CHECK_ID[^\]]*\]\s*", "", rest).strip()
            r.failed_checks.append(desc + "  @" + name)
    r.checks_total = n
    r.cover_ok = cover_seen == 0 or cover_sat == cover_seen
    if not done:
        r.status = "error"
    else:
        r.status = "failed" if r.failed_checks else "ok"
    return r


def run_one(dst: str, h: dict, workdir: str, solver: str, timeout: int) -> HResult:
    name = h["pretty_name"].split("::")[-1]
    w = os.path.join(workdir, name + ".out")
    t0 = time.time()

    def sh(cmd, to=600):
        # own process group: on timeout the solver child (z3) must die with cbmc
        p = subprocess.Popen(cmd, cwd=dst, stdout=subprocess.PIPE, stderr=subprocess.STDOUT, text=True, errors="replace",
                             start_new_session=True)
        try:
            out, _ = p.communicate(timeout=to)
        except subprocess.TimeoutExpired:
            import signal
            try:
                os.killpg(p.pid, signal.SIGKILL)
            except ProcessLookupError:
                pass
            p.communicate()
            raise
        return subprocess.CompletedProcess(cmd, p.returncode, out, None)
    try:
        steps = [
            [f"{KBIN}/goto-cc", h["goto_file"], KLIB, "-o", w],
            [f"{KBIN}/goto-cc", w, "--function", h["mangled_name"], "-o", w],
            [f"{KBIN}/goto-instrument", "--add-library", "--no-malloc-may-fail", w, w],
            [f"{KBIN}/goto-instrument", "--generate-function-body-options", "assert-false-assume-false",
             "--generate-function-body", ".*", "--drop-unused-functions", w, w],
            [f"{KBIN}/goto-instrument", "--ensure-one-backedge-per-target", w, w],
        ]
        for st in steps:
            p = sh(st)
            if p.returncode != 0:
                r = HResult(name, status="error")
                r.raw = " ".join(st[:3]) + "\n" + p.stdout[-1500:]
                return r
        flags = list(CBMC_BASE)
        uw = (h.get("attributes") or {}).get("unwind_value")
        if uw:
            flags += ["--unwind", str(uw), "--unwinding-assertions"]
        if solver == "z3":
            flags += ["--z3"]
        elif solver == "cadical-uf":
            flags += ["--sat-solver", "cadical", "--arrays-uf-always"]
        else:
            flags += ["--sat-solver", "cadical"]
        cmd = [f"{KBIN}/cbmc"] + flags + [w]
        try:
            p = sh(cmd, timeout)
        except subprocess.TimeoutExpired:
            r = HResult(name, status="timeout")
            r.time_s = time.time() - t0
            r.cbmc_cmd = cmd
            return r
        r = parse_text(p.stdout)
        r.solver = solver
        r.harness = name
        r.time_s = time.time() - t0
        r.raw = p.stdout[-3000:]
        r.cbmc_cmd = cmd
        return r
    except subprocess.TimeoutExpired:
        r = HResult(name, status="timeout")
        r.time_s = time.time() - t0
        return r


def run_many(dst: str, meta: Dict[str, dict], fq_solver: Dict[str, str], jobs: int, workdir: str, log: str,
             timeout: int = 900) -> Dict[str, HResult]:
    os.makedirs(workdir, exist_ok=True)
    res = {}
    missing = [fq for fq in fq_solver if fq not in meta]
    for fq in missing:
        res[fq.split("::")[-1]] = HResult(fq.split("::")[-1], status="missing")

    def job(fq):
        return run_one(dst, meta[fq], workdir, fq_solver[fq], timeout)
    with ThreadPoolExecutor(max_workers=jobs) as ex:
        for r in ex.map(job, [fq for fq in fq_solver if fq in meta]):
            res[r.harness] = r
    with open(log, "a") as f:
        for n, r in sorted(res.items()):
            f.write(f"[own-driver] {n}: {r.status} {r.time_s:.1f}s checks={r.checks_total} failed={r.failed_checks[:6]}\n")
            if r.status in ("error", "timeout"):
                f.write(r.raw[-1500:] + "\n")
    return res


def trace(dst: str, r: HResult, check_name: str, timeout: int = 900) -> str:
    """property-directed counterexample (text trace)"""
    cmd = [c for c in r.cbmc_cmd]
    # traces are read with the SAT back end when the object is small, with z3 otherwise: keep the solver of the run
    cmd += ["--property", check_name, "--trace"]
    try:
        p = subprocess.run(cmd, cwd=dst, stdout=subprocess.PIPE, stderr=subprocess.STDOUT, text=True, errors="replace", timeout=timeout)
        return p.stdout
    except subprocess.TimeoutExpired:
        return ""
