"""Mechanical extraction of real functions into a single Verus file.

A unit is a template (contracts/verus/<unit>.rs) with directives, expanded on every run against
the scratch copy of /repo:

  //@item   <file> <kind> <name>                 struct / enum / const / type cut verbatim (derives, doc comments dropped)
  //@fn     <file> <name> [as <newname>]         free or impl function cut verbatim; the contract is the text between
  //@contract ... //@end                         the directive and //@end, spliced between signature and body
  //@action <file> <production signature> as <name>
                                                 the user-block __actionN of that production (found through the
                                                 production table of THIS run), tuple-pattern parameters rewritten
  //@loop <k> ... //@end  (inside a contract)    invariant text spliced into the k-th loop header of the body

Allowed rewrites (each is logged per function and reported in the evidence):
  R1 `(_, x, _): (usize, T, usize)` parameter -> `x: T`; `(_, _, _): ...` parameter dropped;
     lifetimes and the `input: &str` grammar parameter dropped
  R2 print!/println!(lit, args) -> verif_io::outN(Tracked(verif_log), K, args as u64...) and an extra ghost
     parameter `Tracked(verif_log): Tracked<&mut OutLog>` on the function (ghost log: which literal K,
     which values, in which order; erased at compile time)
  R3 format!(..) -> verif_io::opaque_string()
  R4 std::io::stdin().read_line(&mut s) -> verif_io::read_line(Tracked(verif_in), &mut s) and an extra ghost
     parameter `Tracked(verif_in): Tracked<&mut InLog>`: the pending input lines are universally quantified
  R5 #[derive], #[inline], doc comments, #[test] items dropped
  R6 `for <pat> in <iter>` -> `for <pat> in verif_it: <iter>` (names Verus' ghost loop iterator; no executable effect)
  R7 calls of the callees named by `//@ghost <callee> :: <ghost args>` get those ghost arguments appended (the callee's
     contract speaks about the ghost output/input log or the ghost event trace; erased at compile time);
     `//@after <callee> :: <proof block>` appends a proof block after every statement that calls <callee>;
     `//@before <text> :: <proof block>` puts a proof block (a hint: assertions only) in front of every occurrence of <text>
  R8 `<ident> == "<literal>"` on a String -> verif_io::str_eq(&<ident>, "<literal>") (same meaning; vstd has no spec for
     String: PartialEq<&str>); `std::io::stdout().flush()` -> verif_io::flush()
  R11 (only in actions whose template says `//@strslice`) `p[a..b]` / `&p[a..b]` / `p.len()` on a `&str` PARAMETER p ->
      verif_io::str_slice(p, a, b) / verif_io::str_len(p): assumed contracts = std's byte semantics on ASCII text; that the
      text is ASCII is a precondition of the action (it is what the token's regex admits)
  R12 (with `//@strslice`) `(<str>).bytes()` -> `verif_io::str_bytes_vec(<str>).into_iter()`: iteration over the vector of the
      text's bytes (assumed contract: for ASCII text, byte i = character i); same bytes, same order
  R13 `for (i, v) in <place>.iter().enumerate() {` -> `for i in 0..<place>.len() { let v = &<place>[i];` (<place> = path of
      fields; borrowed immutably by the original loop for its whole duration, so the same elements in the same order)
  R14 (only where the template says `//@fmttoks`) `format!(lit, a, b..)` / `"lit".to_owned()` as the argument of out.code.push /
      out.data.push -> verif_io::fmt_toks(Ghost(T)) where T is the token view of the text: the literal cut into tokens by the
      extractor (blanks separate; identifier runs and single punctuation characters are tokens) interleaved, in order, with
      toks(x@) for a String argument x and dec_tok(n) for an integer argument n.  An argument that touches an identifier
      character of the literal or another argument cannot be tokenised this way => out of reach (exit 2).
  R15 `x.replace(&a, &b)` on a String -> verif_io::str_replace(&x, &a, &b): the resulting text is an uninterpreted function of the
      three texts (std's str::replace has no Verus specification); nothing is claimed about the text itself
  R16 (only with `//@charindices`) `for (i, c) in <p>.char_indices() {` -> `for verif_k in 0..verif_ci::char_count(<p>) { let (i, c) =
      verif_ci::char_at(<p>, verif_k);` and `input.len()` -> `verif_ci::byte_len(input)`: helpers with the ASSUMED std contract of
      char_indices (k-th item = byte offset and value of the k-th character; offsets strictly increasing, inside the text)
  R10 a local variable named `int` (a Verus builtin type name) is renamed `int_no`
  R9 print arguments: a slice of the source text `&x[a..b]` is logged as an opaque value (its rendering, and the slicing
     itself, are NOT checked); an identifier named by `//@str <ident>` is a String and is logged as verif_io::str_id(&ident)
Anything else in a body that Verus rejects means the function is OUT OF REACH (exit 2), never "proved".
"""
import os
import re
from typing import Dict, List, Tuple

import prodtable
from prodtable import match_brace
from scratch import Undecided


class Extractor:
    def __init__(self, dst: str):
        self.dst = dst
        self.cache: Dict[str, str] = {}
        self.tables = {}
        self.rewrites: List[str] = []
        self.functions: List[str] = []
        self.literals: List[str] = []     # print literals, index = K
        self.lit_tokens: List[str] = []   # literal tokens of emitted texts (R14), index = id of lit_tok(id)

    # ------------------------------------------------------------------ token views (R14)
    def tok_expr(self, units) -> str:
        """units: [("L", token text) | ("P", String variable) | ("N", integer variable)] -> Verus expression of type Seq<Seq<char>>.
        The same function renders what the code emits (from its format! template) and what the contract demands (from the
        production's signature), so equal unit lists give the same term."""
        e = "Seq::<Seq<char>>::empty()"
        for k, v in units:
            if k == "L":
                if v not in self.lit_tokens:
                    self.lit_tokens.append(v)
                e += f".push(lit_tok({self.lit_tokens.index(v)}))"
            elif k == "P":
                e += f".add(toks({v}@))"
            else:
                e += f".push(dec_tok({v} as int))"
        return e

    @staticmethod
    def lit_units(piece: str):
        """tokens of a literal piece: identifier runs and single punctuation characters; blanks only separate"""
        return [("L", t) for t in re.findall(r"[A-Za-z0-9_]+|[^\sA-Za-z0-9_]", piece)]

    def fmt_units(self, lit: str, args, ptypes, what):
        """format literal + argument names -> unit list; Undecided where token boundaries are not visible in the template"""
        body = lit[1:-1]
        if "\\" in body or "{{" in body or "}}" in body:
            raise Undecided(f"{what}: format literal with escapes: outside rewrite R14")
        pieces = body.split("{}")
        if len(pieces) != len(args) + 1 or re.search(r"[{}]", "".join(pieces)):
            raise Undecided(f"{what}: format literal {lit} with other than plain {{}} placeholders: outside rewrite R14")
        units = []
        INTS = ("u8", "i8", "u16", "i16", "u32", "i32", "usize")
        for i, pc in enumerate(pieces):
            if i > 0:
                a = args[i - 1]
                cm = re.fullmatch(r"(\w+)\s+as\s+(u8|i8|u16|i16|u32|i32|u64|i64|usize|isize)", a)
                ty = lambda v: ptypes.get(v, "").replace("&", "").strip()
                if a in getattr(self, "_local_units", {}):
                    unit = None                 # a local text built by an earlier format! of the same block: its tokens, in place
                elif re.fullmatch(r"\d+", a):
                    unit = ("N", a)
                elif cm and ty(cm.group(1)) in INTS:
                    unit = ("N", f"({a})")      # an integer parameter printed through a cast: the cast value is what is rendered
                elif re.fullmatch(r"\w+", a) and ty(a) in ("String", "str"):
                    unit = ("P", a)
                elif re.fullmatch(r"\w+", a) and ty(a) in INTS:
                    unit = ("N", a)
                else:
                    raise Undecided(f"{what}: format argument `{a}` is not a String / integer parameter of the production (or a cast of one): outside rewrite R14")
                prev = pieces[i - 1]
                if (prev and re.search(r"[A-Za-z0-9_]$", prev)) or (prev == "" and i > 1) or (pc and re.match(r"[A-Za-z0-9_]", pc)):
                    raise Undecided(f"{what}: argument `{a}` touches an identifier character or another argument in {lit}: token boundaries not visible (R14)")
                if unit is None:
                    units += self._local_units[a]
                else:
                    units.append(unit)
            units += self.lit_units(pc)
        return units

    def text(self, rel: str) -> str:
        if rel not in self.cache:
            p = os.path.join(self.dst, rel)
            if not os.path.exists(p):
                raise Undecided(f"lost anchor: {rel} missing")
            self.cache[rel] = open(p).read()
        return self.cache[rel]

    def table(self, rel: str):
        if rel not in self.tables:
            t, acts, prods = prodtable.load(os.path.join(self.dst, rel))
            self.tables[rel] = (t, acts, prods)
        return self.tables[rel]

    # ------------------------------------------------------------------ items
    def item(self, rel: str, kind: str, name: str, newname: str = None) -> str:
        t = self.text(rel)
        if kind in ("struct", "enum"):
            m = re.search(rf"^(pub )?{kind} {re.escape(name)}\b[^;{{]*\{{", t, re.M)
            if not m:
                raise Undecided(f"lost anchor: {kind} {name} not found in {rel}")
            end = match_brace(t, m.end() - 1)
            body = t[m.start():end]
        elif kind in ("const", "type"):
            m = re.search(rf"^(pub )?{kind} {re.escape(name)}\b[^;]*;", t, re.M)
            if not m:
                raise Undecided(f"lost anchor: {kind} {name} not found in {rel}")
            body = m.group(0)
        else:
            raise Undecided(f"unknown item kind {kind}")
        body = re.sub(r"^\s*///.*\n", "", body, flags=re.M)
        body = re.sub(r"^\s*#\[[^\]]*\]\s*\n", "", body, flags=re.M)
        # Copy/Clone derives above the item are kept (the bodies copy these values); all other derives are dropped
        pre = t[max(0, m.start() - 300):m.start()]
        dm = re.search(r"#\[derive\(([^)]*)\)\]\s*(?:///[^\n]*\n\s*)*(?:#\[[^\]]*\]\s*)*$", pre)
        if dm and "Copy" in dm.group(1):
            body = "#[derive(Copy, Clone)]\n" + body
        self.rewrites.append(f"{rel}:{kind} {name}: R5 (attributes/doc comments dropped)")
        if newname:
            body = re.sub(rf"\b{kind} {re.escape(name)}\b", f"{kind} {newname}", body, count=1)
            self.rewrites.append(f"{rel}:{kind} {name}: named {newname} (the alias under which the crate re-exports it)")
        return body

    # -------------------------------------------------------------- functions
    def fn(self, rel: str, name: str, contract: str, newname: str = None, loops: Dict[int, str] = None, opts=None) -> str:
        t = self.text(rel)
        m = re.search(rf"^([ \t]*)(pub(?:\([a-z]+\))? )?fn {re.escape(name)}\s*[<(]", t, re.M)
        if not m:
            raise Undecided(f"lost anchor: function `{name}` not found in {rel}")
        lb = self._body_open(t, m.end() - 1)
        end = match_brace(t, lb)
        sig = t[m.start():lb].strip()
        body = t[lb:end]
        if newname:
            sig = re.sub(rf"fn {re.escape(name)}\b", f"fn {newname}", sig, count=1)
        fb = getattr(self, "l0_fallback", {})
        if name in fb:
            # an L0 helper whose contract a Kani unit discharges bit-precisely: when its body cannot be verified HERE any more (rewritten
            # with other bit operations: the proof hints no longer fit, or their anchor is gone) the unit falls back to the ASSUMED
            # contract -- a failed proof of a helper is "undecided here", and the Kani unit named in the evidence decides it
            stub = lambda why: ("#[verifier::external_body] // assumed contract (" + why + "); discharged by Kani unit " + fb[name] + "\n"
                                + self._assemble(sig, contract.split("//@before")[0], "{ unimplemented!() }", None, f"{rel}::{name}", None))
            if name in getattr(self, "assume_fns", ()):
                self.rewrites.append(f"{rel}::{name}: body NOT verified in this unit (proof of the real body failed or its hint anchor is lost); contract assumed here, discharged by Kani unit {fb[name]}")
                return stub("the real body could not be verified in this unit")
            try:
                self.functions.append(f"{rel}::{name}")
                return self._assemble(sig, contract, body, loops, f"{rel}::{name}", opts)
            except Undecided as e:
                self.functions.pop()
                self.rewrites.append(f"{rel}::{name}: {str(e)[:160]}; contract assumed here, discharged by Kani unit {fb[name]}")
                return stub("lost proof-hint anchor")
        self.functions.append(f"{rel}::{name}")
        return self._assemble(sig, contract, body, loops, f"{rel}::{name}", opts)

    @staticmethod
    def _body_open(t: str, i: int) -> int:
        """index of the `{` opening the body: first `{` at generic/paren depth 0 after the parameter list"""
        depth = 0
        while i < len(t):
            c = t[i]
            if c in "(<[":
                depth += 1
            elif c in ")>]":
                if c == ">" and t[i - 1] == "-":
                    pass
                else:
                    depth -= 1
            elif c == "{" and depth == 0:
                return i
            i += 1
        raise Undecided("function body not found")

    def action(self, rel: str, sig: str, name: str, contract: str, loops: Dict[int, str] = None, drop=("input",), opts=None) -> str:
        t, acts, prods = self.table(rel)
        want = re.sub(r"\s+", " ", sig.strip())
        hit = [p for p in prods if re.sub(r"\s+", " ", p.sig) == want]
        if not hit:
            raise Undecided(f"lost anchor: production `{sig}` not found in {rel}")
        a = acts[hit[0].user_action]
        params = []
        fnptr_calls = []

        def fnptr(pat, ty):
            # R17: a parameter of a function-pointer type (Verus has no such type): dropped; every use must be the call
            # `f(vm)`, which becomes `verif_fnptr_apply(vm)`, a stub the template declares with an uninterpreted effect
            if not (opts and pat in opts.get("fnptr", ())):
                return False
            if ty.strip() not in ("StringOp", "fn(&mut VM)", "fn(&mut crate::vm::VM)"):
                raise Undecided(f"{rel}: `{sig}`: parameter {pat}: {ty} is not the function-pointer type rewrite R17 expects")
            uses = len(re.findall(r"\b" + re.escape(pat) + r"\b", a.body))
            calls = len(re.findall(r"\b" + re.escape(pat) + r"\(\s*vm\s*\)", a.body))
            if uses != calls or calls == 0:
                raise Undecided(f"{rel}: `{sig}`: the function-pointer parameter {pat} is used other than as `{pat}(vm)`: outside rewrite R17")
            fnptr_calls.append((pat, calls))
            return True
        for pat, ty in a.params:
            if pat.startswith("("):
                inner = [x.strip() for x in pat.strip("()").split(",")]
                tym = re.fullmatch(r"\(\s*usize\s*,\s*(.*)\s*,\s*usize\s*\)", ty, re.S)
                if len(inner) != 3 or not tym:
                    raise Undecided(f"{rel}: `{sig}`: parameter pattern {pat} outside rewrite R1")
                if inner[1] == "_":
                    continue
                if inner[0] != "_" or inner[2] != "_":
                    raise Undecided(f"{rel}: `{sig}`: parameter pattern {pat} uses positions: outside rewrite R1")
                if fnptr(inner[1], tym.group(1)):
                    continue
                params.append(f"{inner[1]}: {self._ty(tym.group(1))}")
            else:
                if pat in drop:
                    continue
                if fnptr(pat, ty):
                    continue
                if opts and opts.get("dropunused") and not re.search(r"\b" + re.escape(pat) + r"\b", a.body):
                    # R1: a parameter the block never mentions (context / out / vm handed to every action) cannot affect it
                    continue
                params.append(f"{pat}: {self._ty(ty)}")
        ret = self._ty(a.ret)
        infallible_as_ok = False
        if ret == "()" and re.search(r"\br\.is_(err|ok)\(\)", contract or ""):
            # R18: the contract speaks about refusal (`r.is_err()`) but the production is written infallible (`=> {B}` where the
            # contract's author saw `=>? {B}`): it is presented as the fallible production that never refuses, `{ B; Ok(()) }` --
            # LALRPOP's own reading of `=>`.  The refusal clauses are then refuted instead of the unit being rejected.
            if re.search(r"\breturn\b", a.body):
                raise Undecided(f"{rel}: `{sig}`: infallible production with a `return` statement: outside rewrite R18")
            ret, infallible_as_ok = "Result<(), ParseError>", True
        fsig = f"fn {name}({', '.join(params)}) -> {ret}" if ret != "()" else f"fn {name}({', '.join(params)})"
        self.rewrites.append(f"{rel}: `{sig}` (__action{a.n}): R1")
        self.functions.append(f"{rel}::[{sig}]")
        body = a.body
        if infallible_as_ok:
            body = "{ " + body.strip() + ";\n    Ok(()) }"
            self.rewrites.append(f"{rel}: `{sig}`: R18 infallible production presented as the fallible one that never refuses (`{{ B; Ok(()) }}`), because its contract has refusal clauses")
        for pat, calls in fnptr_calls:
            body = re.sub(r"\b" + re.escape(pat) + r"\(\s*vm\s*\)", "verif_fnptr_apply(vm)", body)
            self.rewrites.append(f"{rel}: `{sig}`: R17 function-pointer parameter `{pat}` dropped, {calls} call(s) `{pat}(vm)` -> verif_fnptr_apply(vm) (a stub with an UNINTERPRETED effect on the whole machine)")
        if opts and opts.get("strslice"):
            # R11 (only where the template asks for it): byte slicing / byte length of a `&str` PARAMETER
            for prm in params:
                pn, _, pt = prm.partition(": ")
                if pt.strip() != "&str":
                    continue
                body, n = self._str_param_ops(body, pn.strip())
                if n:
                    self.rewrites.append(f"{rel}: `{sig}`: R11 {n} byte-slice / len operation(s) on &str parameter `{pn.strip()}` -> verif_io::str_slice / str_len (contracts valid for ASCII text, required of the caller)")
        if opts and opts.get("strslice") and ").bytes()" in body:
            # R12: `(<str expr>).bytes()` -> iteration over the vector of its bytes
            n = 0
            while ").bytes()" in body:
                j = body.index(").bytes()")
                d, i = 1, j - 1
                while d:
                    if body[i] == ")":
                        d += 1
                    elif body[i] == "(":
                        d -= 1
                    i -= 1
                i += 1
                body = body[:i] + "verif_io::str_bytes_vec(" + body[i + 1:j] + ").into_iter()" + body[j + len(").bytes()"):]
                n += 1
            self.rewrites.append(f"{rel}: `{sig}`: R12 {n} `(..).bytes()` -> verif_io::str_bytes_vec(..).into_iter() (the same bytes in the same order, ASCII text)")
        if opts is not None:
            opts["_ptypes"] = {prm.partition(": ")[0].strip(): prm.partition(": ")[2].strip() for prm in params}
        return self._assemble(fsig, contract, body, loops, f"{rel}::[{sig}]", opts)

    @staticmethod
    def _str_param_ops(body: str, name: str):
        n = 0
        out, i = "", 0
        pat = re.compile(r"&?\b" + re.escape(name) + r"\[")
        while True:
            m = pat.search(body, i)
            if not m:
                out += body[i:]
                break
            j = m.end()
            d = 1
            while d:
                if body[j] == "[":
                    d += 1
                elif body[j] == "]":
                    d -= 1
                j += 1
            inner = body[m.end():j - 1]
            if ".." not in inner:
                out += body[i:j]
                i = j
                continue
            a_, _, b_ = inner.partition("..")
            a_ = a_.strip() or "0"
            b_ = b_.strip() or f"{name}.len()"
            out += body[i:m.start()] + f"verif_io::str_slice({name}, {a_}, {b_})"
            i = j
            n += 1
        body = out
        b2 = re.sub(r"\b" + re.escape(name) + r"\.len\(\)", f"verif_io::str_len({name})", body)
        n += len(re.findall(r"\b" + re.escape(name) + r"\.len\(\)", body))
        return b2, n

    @staticmethod
    def _ty(ty: str) -> str:
        ty = re.sub(r"(?:__lalrpop_util::)?ParseError<usize,\s*Token<'\w+>,\s*&'static str>", "ParseError", ty)
        ty = re.sub(r"&'\w+\s+", "&", ty)
        ty = re.sub(r"<'\w+(,\s*'\w+)*>", "", ty)
        ty = ty.replace("__lalrpop_util::", "").replace("core::option::", "")
        ty = re.sub(r"ParseError<usize,\s*Token,\s*&'static str>", "ParseError", ty)
        ty = re.sub(r"ParseError<usize,\s*Token<'\w+>,\s*&'static str>", "ParseError", ty)
        ty = ty.replace("util::Context", "Context").replace("util::Output", "Output")
        return ty

    def _assemble(self, sig: str, contract: str, body: str, loops, what: str, opts=None) -> str:
        opts = opts or {}
        body = self._rewrite_body(body, what, opts)
        if loops:
            body = self._splice_loops(body, loops, what)
        # R2/R4/R7: the ghost logs / trace are threaded through extra tracked parameters
        for gname, gty in (("verif_log", "OutLog"), ("verif_in", "InLog"), ("verif_tr", "Trace"), ("verif_ct", "CiteLog")):
            if f"Tracked({gname})" in body or f"{gname}.note_" in body:
                k = sig.rindex(")", 0, sig.index("->") if "->" in sig else len(sig))
                inner = sig[sig.index("(") + 1:k].strip()
                sep = "" if not inner or inner.endswith(",") else ", "
                sig = sig[:k] + sep + f"Tracked({gname}): Tracked<&mut {gty}>" + sig[k:]
        # Verus names the result in the signature: `-> (r: T)`
        m = re.search(r"->\s*([^{]+)$", sig)
        if m and "ensures" in contract:
            ty = m.group(1).strip()
            sig = sig[:m.start()] + f"-> ({opts.get('result') or 'r'}: {ty})"
        return f"{sig}\n{contract.rstrip()}\n{body}\n"

    def _rewrite_body(self, body: str, what: str, opts=None) -> str:
        opts = opts or {}
        strs = set(opts.get("str", []))

        def lit_index(lit):
            if lit not in self.literals:
                self.literals.append(lit)
            return self.literals.index(lit)

        def pr(m):
            macro, args = m.group(1), m.group(2)
            am = re.match(r'\s*("(?:[^"\\]|\\.)*")\s*(?:,(.*))?$', args, re.S)
            if not args.strip():
                k = lit_index('""' + ("\\n" if macro == "println" else ""))
                self.rewrites.append(f"{what}: R2 {macro}!()")
                return f"verif_io::out0(Tracked(verif_log), {k})"
            if not am:
                raise Undecided(f"{what}: {macro}! without a literal format string: outside rewrite R2")
            lit = am.group(1) + ("\\n" if macro == "println" else "")
            k = lit_index(lit)
            rest = [x.strip() for x in split_top(am.group(2) or "")]
            # a value bound by an `Err(x)` pattern (an error object) has no numeric rendering: logged as opaque
            errs = set(re.findall(r"Err\((\w+)\)\s*=>", body)) | set(re.findall(r"\blet\s+Err\((\w+)\)\s*=", body))
            rest = ["verif_io::opaque_u64()" if a in errs else a for a in rest]
            for i, a in enumerate(rest):
                if re.fullmatch(r"&\w+\[[^\]]*\.\.[^\]]*\]", a):
                    rest[i] = "verif_io::opaque_u64()"
                    self.rewrites.append(f"{what}: R9 source slice `{a}` in a message logged as opaque")
                elif a in strs:
                    rest[i] = f"verif_io::str_id(&{a})"
                    self.rewrites.append(f"{what}: R9 String `{a}` in a message logged as str_id")
            self.rewrites.append(f"{what}: R2 {macro}!({am.group(1)[:40]}..)")
            if len(rest) > 9:
                raise Undecided(f"{what}: {macro}! with more than 9 arguments")
            return f"verif_io::out{len(rest)}(Tracked(verif_log), {k}" + "".join(f", ({a}) as u64" for a in rest) + ")"
        # R10: a local variable called `int` collides with Verus' builtin type of that name
        if re.search(r"\bint\b", re.sub(r'"(?:[^"\\]|\\.)*"|//[^\n]*', "", body)):
            parts = re.split(r'("(?:[^"\\]|\\.)*"|//[^\n]*)', body)
            body = "".join(x if i % 2 else re.sub(r"\bint\b", "int_no", x) for i, x in enumerate(parts))
            self.rewrites.append(f"{what}: R10 local `int` renamed `int_no` (name of a Verus builtin type)")
        body2 = replace_macro(body, ("println", "print"), pr)
        if body2 != body:
            body = body2

        if opts.get("fmttoks"):
            ptypes = opts.get("_ptypes", {})
            self._local_units = {}
            for lm in re.finditer(r'\blet\s+(?:mut\s+)?(\w+)\s*(?::\s*String\s*)?=\s*format!\(\s*("(?:[^"\\]|\\.)*")\s*(?:,([^;]*))?\)\s*;', body):
                try:
                    self._local_units[lm.group(1)] = self.fmt_units(lm.group(2), [x.strip() for x in split_top(lm.group(3) or "")], ptypes, what)
                except Undecided:
                    pass
            def push_arg(mm):
                arg = mm.group(2).strip()
                fmm = re.fullmatch(r'format!\(\s*("(?:[^"\\]|\\.)*")\s*(?:,(.*))?\)', arg, re.S)
                if fmm:
                    args = [x.strip() for x in split_top(fmm.group(2) or "")]
                    units = self.fmt_units(fmm.group(1), args, ptypes, what)
                elif re.fullmatch(r'"(?:[^"\\]|\\.)*"\.to_owned\(\)', arg):
                    units = self.lit_units(arg[1:arg.rindex('"')])
                elif re.fullmatch(r"\w+", arg):
                    return mm.group(0)          # a parameter or a local is pushed: its own token view (a local's text is rewritten where it is built)
                else:
                    raise Undecided(f"{what}: pushed text `{arg[:60]}` is neither format!(literal, parameters), a literal nor a parameter: outside rewrite R14")
                self.rewrites.append(f"{what}: R14 {arg[:50]} -> fmt_toks (token view)")
                return f"{mm.group(1)}verif_io::fmt_toks(Ghost({self.tok_expr(units)})));"
            body = re.sub(r"(out\.(?:code|data)\.push\()(.*?)\);", push_arg, body, flags=re.S)
            ptypes2 = dict(ptypes)
            for hint in opts.get("fmtvar", []):
                v, _, ty = hint.partition(":")
                ptypes2[v] = ty            # a variable bound by a pattern inside the block (`if let Some(s) = sr`), typed by the template
            def any_fmt(m):
                am = re.match(r'\s*("(?:[^"\\]|\\.)*")\s*(?:,(.*))?$', m.group(2), re.S)
                if not am:
                    raise Undecided(f"{what}: format! without a literal: outside rewrite R14")
                args = [x.strip() for x in split_top(am.group(2) or "")]
                units = self.fmt_units(am.group(1), args, ptypes2, what)
                self.rewrites.append(f"{what}: R14 format!({am.group(1)[:40]}..) -> fmt_toks (token view)")
                return f"verif_io::fmt_toks(Ghost({self.tok_expr(units)}))"
            # the text of a diagnostic (argument of error!) stays opaque (R3); every other format! is a text the production hands on
            def keep_err(m):
                inner = replace_macro(m.group(2), ("format",), lambda mm: "verif_io::opaque_string()")
                return f"error!({inner})"
            body = replace_macro(body, ("error",), keep_err)
            body = replace_macro(body, ("format",), any_fmt)

        def fm(m):
            self.rewrites.append(f"{what}: R3 format!")
            # the text is opaque, but the arguments are still EVALUATED (borrowed), so an overflow / index / underflow inside an
            # argument expression is an obligation of the function like anywhere else.  Not evaluated: slices of the source text (R9)
            am = re.match(r'\s*r?#*"(?:[^"\\]|\\.)*"#*\s*(?:,(.*))?$', m.group(2), re.S)
            ev = []
            if am and am.group(1):
                for a in split_top(am.group(1)):
                    a = a.strip()
                    if not a or re.fullmatch(r"[\w.]+", a) or re.search(r"\[[^\]]*\.\.[^\]]*\]", a) or re.match(r"\w+\s*=[^=]", a):
                        continue        # a plain variable / field has nothing to evaluate; source slices are R9; named arguments are left alone
                    ev.append(a)
            if not ev:
                return "verif_io::opaque_string()"
            self.rewrites.append(f"{what}: R3 {len(ev)} format argument expression(s) still evaluated")
            return "{ " + " ".join(f"let _ = &({a});" for a in ev) + " verif_io::opaque_string() }"
        body = replace_macro(body, ("format",), fm)
        # R13: `for (i, v) in <place>.iter().enumerate() {` -> `for i in 0..<place>.len() { let v = &<place>[i];`
        # (Verus has no spec for the Enumerate adaptor).  <place> is a path of fields of a parameter; the original loop
        # holds `&<place>` for its whole duration, so its body cannot change <place>: same elements, same order, same
        # early exits.  The spliced invariant then speaks about the index.
        def enum_loop(m):
            self.rewrites.append(f"{what}: R13 `for ({m.group(1)}, {m.group(2)}) in {m.group(3)}.iter().enumerate()` -> index loop over 0..{m.group(3)}.len() with `let {m.group(2)} = &{m.group(3)}[{m.group(1)}]`")
            return f"for {m.group(1)} in 0..{m.group(3)}.len() {{ let {m.group(2)} = &{m.group(3)}[{m.group(1)}];"
        body = re.sub(r"\bfor\s+\(\s*(\w+)\s*,\s*(\w+)\s*\)\s+in\s+([\w.]+)\.iter\(\)\.enumerate\(\)\s*\{", enum_loop, body)
        # R16 (only where the template says `//@charindices`): `for (i, c) in <p>.char_indices() {` -> an index loop over the characters
        # of <p> through two helpers whose ASSUMED contracts are std's documented meaning of char_indices (k-th item = byte offset and
        # value of the k-th character; offsets strictly increasing and inside the text); `<p>.len()` -> the byte length helper
        if opts.get("charindices"):
            def ci(m):
                self.rewrites.append(f"{what}: R16 `for ({m.group(1)}, {m.group(2)}) in {m.group(3)}.char_indices()` -> index loop over the characters (assumed std contract)")
                return (f"for verif_k in 0..verif_ci::char_count({m.group(3)}) {{ let ({m.group(1)}, {m.group(2)}) = verif_ci::char_at({m.group(3)}, verif_k);")
            body = re.sub(r"\bfor\s+\(\s*(\w+)\s*,\s*(\w+)\s*\)\s+in\s+(\w+)\.char_indices\(\)\s*\{", ci, body)
            for prm in opts.get("_ptypes", {}):
                pass
            body = re.sub(r"\b(input)\.len\(\)", r"verif_ci::byte_len(\1)", body)
        # R6: name the ghost iterator of `for _ in <range>` so that a spliced invariant can refer to the trip count
        b3 = re.sub(r"\bfor\s+(_|\w+|\([\w\s,]+\))\s+in\s+(?!verif_it:)", r"for \1 in verif_it: ", body)
        if b3 != body:
            body = b3
            self.rewrites.append(f"{what}: R6 ghost iterator named")
        if "std::io::stdin().read_line(" in body:
            body = body.replace("std::io::stdin().read_line(", "verif_io::read_line(Tracked(verif_in), ")
            self.rewrites.append(f"{what}: R4 stdin read_line -> ghost input log")
        # (a field path such as `token.1` holds a &str: compared through the same helper, generic over the two string types)
        b4 = re.sub(r'(?<![\w.])((?:\w+\.)+\w+)\s*==\s*("(?:[^"\\]|\\.)*")', r"verif_io::strref_eq(\1, \2)", body)
        b4 = re.sub(r'(?<![\w.])(\w+)\s*==\s*("(?:[^"\\]|\\.)*")', r"verif_io::str_eq(&\1, \2)", b4)
        if b4 != body:
            body = b4
            self.rewrites.append(f"{what}: R8 String == literal -> verif_io::str_eq")
        # R15: `x.replace(&a, &b)` on a String (str::replace has no Verus specification) -> an uninterpreted function of the three texts
        b5 = re.sub(r"(?<![\w.])(\w+)\.replace\(\s*&(\w+)\s*,\s*&(\w+)\s*\)", r"verif_io::str_replace(&\1, &\2, &\3)", body)
        if b5 != body:
            body = b5
            self.rewrites.append(f"{what}: R15 String::replace -> verif_io::str_replace (uninterpreted text)")
        if "std::io::stdout().flush()" in body:
            body = body.replace("std::io::stdout().flush()", "verif_io::flush()")
            self.rewrites.append(f"{what}: R8 stdout flush -> verif_io::flush()")
        for callee, gargs in opts.get("ghost", []):
            body, n = self._append_ghost_args(body, callee, gargs)
            if n == 0:
                raise Undecided(f"{what}: lost anchor: no call of `{callee}` found (rewrite R7)")
            self.rewrites.append(f"{what}: R7 {n} call(s) of {callee} get ghost arguments")
        for anchor, block in opts.get("before", []):
            n = body.count(anchor)
            if n == 0:
                raise Undecided(f"{what}: lost anchor: `{anchor}` not found (proof hint)")
            body = body.replace(anchor, block + " " + anchor)
            self.rewrites.append(f"{what}: R7 proof hint before {n} occurrence(s) of `{anchor}`")
        for callee, block in opts.get("after", []):
            body, n = self._append_after(body, callee, block)
            if n == 0:
                raise Undecided(f"{what}: lost anchor: no call of `{callee}` found (rewrite R7 after)")
            self.rewrites.append(f"{what}: R7 proof block after {n} call(s) of {callee}")
        return body

    @staticmethod
    def _call_spans(body: str, callee: str):
        """(open paren index, close paren index) of every call `callee(`"""
        out = []
        for m in re.finditer(r"(?<![\w.])" + re.escape(callee) + r"\s*\(", body):
            i = m.end() - 1
            d, j = 0, i
            while True:
                c = body[j]
                if c == '"':
                    j += 1
                    while body[j] != '"':
                        if body[j] == "\\":
                            j += 1
                        j += 1
                elif c in "([{":
                    d += 1
                elif c in ")]}":
                    d -= 1
                    if d == 0:
                        break
                j += 1
            out.append((i, j))
        return out

    def _append_ghost_args(self, body: str, callee: str, gargs: str):
        spans = self._call_spans(body, callee)
        for i, j in reversed(spans):
            inner = body[i + 1:j].strip()
            sep = "" if not inner or inner.endswith(",") else ", "
            body = body[:j] + sep + gargs + body[j:]
        return body, len(spans)

    def _append_after(self, body: str, callee: str, block: str):
        spans = self._call_spans(body, callee)
        for i, j in reversed(spans):
            k = body.index(";", j)
            # $1, $2 .. in the block stand for the text of the call's arguments (so a hint can speak about what was really passed)
            args = [a.strip() for a in split_top(body[i + 1:j])]
            blk = re.sub(r"\$(\d)", lambda m: args[int(m.group(1)) - 1] if int(m.group(1)) <= len(args) else "()", block)
            body = body[:k + 1] + " " + blk + ("\n" if "//#" in blk else "") + body[k + 1:]
        return body, len(spans)

    def _splice_loops(self, body: str, loops: Dict[int, str], what: str) -> str:
        heads = [m for m in re.finditer(r"\b(for\s+[^{;]+?\s+in\s+[^{]+?|while\s+[^{]+?|loop\s*)\{", body)]
        out = body
        for k in sorted(loops.keys(), reverse=True):
            if k >= len(heads):
                raise Undecided(f"{what}: loop #{k} not found (the body has {len(heads)} loops)")
            m = heads[k]
            pos = m.end() - 1
            out = out[:pos] + "\n" + loops[k].rstrip() + "\n" + out[pos:]
        return out


def split_top(s: str) -> List[str]:
    out, cur, d = [], "", 0
    for c in s:
        if c in "([{":
            d += 1
        elif c in ")]}":
            d -= 1
        if c == "," and d == 0:
            if cur.strip():
                out.append(cur)
            cur = ""
        else:
            cur += c
    if cur.strip():
        out.append(cur)
    return out


def replace_macro(body: str, names: Tuple[str, ...], fn) -> str:
    """replace  name!( ... )  (balanced parentheses, string aware)"""
    out, i = "", 0
    pat = re.compile(r"\b(" + "|".join(names) + r")!\(")
    while True:
        m = pat.search(body, i)
        if not m:
            return out + body[i:]
        j = m.end()
        d = 1
        while d > 0:
            c = body[j]
            if c == '"':
                j += 1
                while body[j] != '"':
                    if body[j] == "\\":
                        j += 1
                    j += 1
            elif c == "(":
                d += 1
            elif c == ")":
                d -= 1
            j += 1

        class M:
            def __init__(s, a, b):
                s.a, s.b = a, b

            def group(s, k):
                return s.a if k == 1 else s.b
        out += body[i:m.start()] + fn(M(m.group(1), body[m.end():j - 1]))
        i = j


DIRECTIVE = re.compile(r"^//@(item|fn|action|contract|end|loop)\b(.*)$")


def expand(template: str, ex: Extractor) -> str:
    lines = template.split("\n")
    out = []
    i = 0
    while i < len(lines):
        ln = lines[i]
        m = DIRECTIVE.match(ln.strip())
        if not m:
            out.append(ln)
            i += 1
            continue
        kind, rest = m.group(1), m.group(2).strip()
        if kind == "item":
            parts = rest.split()
            rel, k, name = parts[:3]
            out.append(ex.item(rel, k, name, parts[4] if len(parts) >= 5 and parts[3] == "as" else None))
            i += 1
            continue
        if kind in ("fn", "action"):
            # collect contract block
            contract, loops = [], {}
            opts = {"ghost": [], "after": [], "before": [], "str": [], "strslice": False, "dropunused": False, "fmttoks": False, "fmtvar": [], "fnptr": [], "charindices": False}
            j = i + 1
            if j < len(lines) and lines[j].strip().startswith("//@contract"):
                j += 1
                cur_loop = None
                while not (lines[j].strip() == "//@end" and cur_loop is None):
                    s = lines[j].strip()
                    lm = re.match(r"//@loop (\d+)", s)
                    om = re.match(r"//@(ghost|after|before|str|fmtvar|fnptr)\s+(.*)$", s)
                    if s == "//@strslice":
                        opts["strslice"] = True
                    elif s == "//@dropunused":
                        opts["dropunused"] = True
                    elif s == "//@charindices":
                        opts["charindices"] = True
                    elif s == "//@fmttoks":
                        opts["fmttoks"] = True
                    elif s.startswith("//@result "):
                        opts["result"] = s.split()[1]      # name of the result in the contract (default r) when a parameter is called r
                    elif om and cur_loop is None:
                        if om.group(1) in ("str", "fmtvar", "fnptr"):
                            opts[om.group(1)] += om.group(2).split()
                        else:
                            callee, _, txt = om.group(2).partition(" :: ")
                            opts[om.group(1)].append((callee.strip(), txt.strip()))
                    elif lm:
                        cur_loop = int(lm.group(1))
                        loops[cur_loop] = ""
                    elif s == "//@end" and cur_loop is not None:
                        cur_loop = None
                    elif cur_loop is not None:
                        loops[cur_loop] += lines[j] + "\n"
                    else:
                        contract.append(lines[j])
                    j += 1
                j += 1
            ctext = "\n".join(contract)
            if kind == "fn":
                parts = rest.split()
                rel, name = parts[0], parts[1]
                newname = parts[3] if len(parts) >= 4 and parts[2] == "as" else None
                out.append(ex.fn(rel, name, ctext, newname, loops, opts))
            else:
                rel, _, tail = rest.partition(" ")
                sig, _, name = tail.rpartition(" as ")
                out.append(ex.action(rel, sig.strip(), name.strip(), ctext, loops, opts=opts))
            i = j
            continue
        raise Undecided(f"stray directive: {ln}")
    return "\n".join(out)
