"""L0/L1 contracts: Kani function contracts (requires / ensures / modifies) inserted,
add-only, above the real hand-written functions of the scratch copy, plus one
`proof_for_contract` harness per function.

Contracts are data: CONTRACTS maps  file -> fn name -> Contract.  Clause names
(`arith.byte_sbb.CF`) are embedded in the ensures text through
verif_support::clause(..) so that a failed CBMC check maps back to an obligation.
"""
from dataclasses import dataclass, field
from typing import List, Dict, Tuple

S = "crate::i8086_spec"
V = "crate::verif_support"


@dataclass
class Contract:
    fn: str                         # function name
    props: List[str]                # property ids served
    requires: List[str] = field(default_factory=list)
    modifies: List[str] = field(default_factory=list)
    # (clause name, closure param pattern, bool expr)
    ensures: List[Tuple[str, str]] = field(default_factory=list)
    ret: str = "u8"
    harness: str = ""               # body of the proof_for_contract harness
    unwind: int = 0
    klass: str = "P"
    replay: dict = field(default_factory=dict)
    generic_inst: str = ""         # e.g. "::<u16, u16>" for generic functions
    solver: str = ""
    sub_clauses: List[str] = field(default_factory=list)


def attrs(c: Contract) -> str:
    out = []
    for r in c.requires:
        out.append(f"#[cfg_attr(kani, kani::requires({r}))]")
    for m in c.modifies:
        out.append(f"#[cfg_attr(kani, kani::modifies({m}))]")
    # Kani 0.68: an ensures clause that does not mention `vm` must not precede those that do
    # (closure borrow order in the contract expansion), so such clauses are emitted last.
    ens = [e for e in c.ensures if "vm" in e[1]] + [e for e in c.ensures if "vm" not in e[1]]
    for name, expr in ens:
        out.append(f'#[cfg_attr(kani, kani::ensures(|r: &{c.ret}| {V}::clause("{name}", /*[{name}*/ {expr} /*]*/)))]')
    return "\n".join(out) + "\n"


FLAGBITS = [("CF", "CF"), ("PF", "PF"), ("AF", "AF"), ("ZF", "ZF"), ("SF", "SF"), ("OF", "OF")]

INPUT_REGS = ["flag", "ax", "bx", "cx", "dx", "sp", "bp", "si", "di", "ip", "cs", "ds", "ss", "es"]


def decl_regs() -> str:
    """14 named symbolic register inputs (named so the CBMC trace can be read back)."""
    return "\n".join(f"        let in_{r}: u16 = kani::any();" for r in INPUT_REGS)


def arch_expr() -> str:
    return "crate::arch::i8086 { " + ", ".join(f"{r}: in_{r}" for r in INPUT_REGS) + " }"


def fenced() -> str:
    return decl_regs() + f"\n        let mut vm = {V}::fenced_vm_with({arch_expr()});\n        /*@regs-done*/\n"


def heap() -> str:
    return decl_regs() + f"\n        let mut vm = {V}::heap_vm_with({arch_expr()});\n        /*@regs-done*/\n"


def binary_alu(fn: str, w: int, op: str) -> Contract:
    t = "u8" if w == 8 else "u16"
    alu = f"{S}::alu{w}({S}::Alu::{op}, op1, op2, old(vm.arch.flag) & 1 != 0)"
    ens = []
    if op == "Cmp":
        ens.append((f"arith.{fn}.result", "*r == op1"))
    else:
        ens.append((f"arith.{fn}.result", f"*r == {alu}.0"))
    for name, bit in FLAGBITS:
        ens.append((f"arith.{fn}.{name}", f"vm.arch.flag & {S}::{bit} == {alu}.1 & {S}::{bit}"))
    ens.append((f"arith.{fn}.other_flag_bits", f"vm.arch.flag & !{S}::STATUS6 == old(vm.arch.flag) & !{S}::STATUS6"))
    h = fenced() + f"        let in_op1: {t} = kani::any();\n        let in_op2: {t} = kani::any();\n        let _ = {fn}(&mut vm, in_op1, in_op2);\n        {V}::forget_vm(vm);\n"
    return Contract(fn, ["C01", "C09"], [], ["&vm.arch.flag"], ens, t, h,
                    replay={"kind": "l1_binary", "fn": fn, "w": w, "spec": "alu", "op": op})


def binary_logic(fn: str, w: int, op: str) -> Contract:
    t = "u8" if w == 8 else "u16"
    lg = f"{S}::logic{w}({S}::Logic::{op}, dest, source)"
    ens = []
    if op == "Test":
        ens.append((f"logic.{fn}.result", "*r == dest"))
    else:
        ens.append((f"logic.{fn}.result", f"*r == {lg}.0"))
    for name in ["CF", "OF", "SF", "ZF", "PF"]:
        ens.append((f"logic.{fn}.{name}", f"vm.arch.flag & {S}::{name} == {lg}.1 & {S}::{name}"))
    ens.append((f"logic.{fn}.other_flag_bits", f"vm.arch.flag & !{S}::STATUS6 == old(vm.arch.flag) & !{S}::STATUS6"))
    # AF: undefined in the manual, but the property statement (C02) says "nothing else in the machine changes"
    ens.append((f"logic.{fn}.AF_unchanged", f"vm.arch.flag & {S}::AF == old(vm.arch.flag) & {S}::AF"))
    h = fenced() + f"        let in_op1: {t} = kani::any();\n        let in_op2: {t} = kani::any();\n        let _ = {fn}(&mut vm, in_op1, in_op2);\n        {V}::forget_vm(vm);\n"
    return Contract(fn, ["C02", "C09"], [], ["&vm.arch.flag"], ens, t, h,
                    replay={"kind": "l1_binary", "fn": fn, "w": w, "spec": "logic", "op": op})


def shift(fn: str, w: int, kind: str) -> Contract:
    t = "u8" if w == 8 else "u16"
    # one ensures: the 255-step reference is evaluated once; the five sub-clauses are named
    # assertions inside verif_support::post_shift (obligation id = harness/clause)
    ens = [(f"shift.{fn}.post",
            f"{V}::post_shift({S}::Sh::{kind}, {w}, val as u32, num as u32, old(vm.arch.flag), *r as u32, vm.arch.flag)")]
    req = [] if w == 8 else ["num <= 255"]
    pre = "" if w == 8 else "        kani::assume(in_op2 <= 255); // both call sites pass a u8 count\n"
    h = fenced() + f"        let in_op1: {t} = kani::any();\n        let in_op2: {t} = kani::any();\n{pre}        let _ = {fn}(&mut vm, in_op1, in_op2);\n        {V}::forget_vm(vm);\n"
    c = Contract(fn, ["C02", "C09"], req, ["&vm.arch.flag"], ens, t, h, unwind=257,
                 replay={"kind": "l1_binary", "fn": fn, "w": w, "spec": "shift", "op": kind})
    c.sub_clauses = ["shift.result", "shift.CF", "shift.OF_count1", "shift.SF_ZF_PF", "shift.AF_and_control_bits"]
    return c


def unary_incdecneg(fn: str, w: int, op: str) -> Contract:
    t = "u8" if w == 8 else "u16"
    u = f"{S}::una{w}({S}::Una::{op}, old(*val), old(vm.arch.flag))"
    ens = [(f"arith.{fn}.ok", "r.is_ok()"), (f"arith.{fn}.result", f"*val == {u}.0")]
    for name, bit in FLAGBITS:
        ens.append((f"arith.{fn}.{name}", f"vm.arch.flag & {S}::{bit} == {u}.1 & {S}::{bit}"))
    ens.append((f"arith.{fn}.other_flag_bits", f"vm.arch.flag & !{S}::STATUS6 == old(vm.arch.flag) & !{S}::STATUS6"))
    h = fenced() + f"        let mut in_op1: {t} = kani::any();\n        let _ = {fn}(&mut vm, &mut in_op1);\n        {V}::forget_vm(vm);\n"
    return Contract(fn, ["C01", "C09"], [], ["&vm.arch.flag", "val"], ens, "Result<(), DivByZero>", h,
                    replay={"kind": "l1_unary", "fn": fn, "w": w, "spec": "una", "op": op})


def mul(fn: str, w: int, signed: bool) -> Contract:
    t = "u8" if w == 8 else "u16"
    name = ("imul" if signed else "mul") + str(w)
    if w == 8:
        m = f"{S}::{name}(old(vm.arch.ax) as u8, old(*val))"
        ens = [(f"muldiv.{fn}.ok", "r.is_ok()"),
               (f"muldiv.{fn}.AX", f"vm.arch.ax == {m}.0"),
               (f"muldiv.{fn}.DX_unchanged", "vm.arch.dx == old(vm.arch.dx)"),
               (f"muldiv.{fn}.CF_OF", f"(vm.arch.flag & {S}::CF != 0) == {m}.1 && (vm.arch.flag & {S}::OF != 0) == {m}.1")]
    else:
        m = f"{S}::{name}(old(vm.arch.ax), old(*val))"
        ens = [(f"muldiv.{fn}.ok", "r.is_ok()"),
               (f"muldiv.{fn}.AX", f"vm.arch.ax == {m}.1"),
               (f"muldiv.{fn}.DX", f"vm.arch.dx == {m}.0"),
               (f"muldiv.{fn}.CF_OF", f"(vm.arch.flag & {S}::CF != 0) == {m}.2 && (vm.arch.flag & {S}::OF != 0) == {m}.2")]
    ens.append((f"muldiv.{fn}.operand_unchanged", "*val == old(*val)"))
    ens.append((f"muldiv.{fn}.other_flag_bits", f"(vm.arch.flag ^ old(vm.arch.flag)) & {S}::MUL_MASK & !({S}::CF | {S}::OF) == 0"))
    h = fenced() + f"        let mut in_op1: {t} = kani::any();\n        let _ = {fn}(&mut vm, &mut in_op1);\n        {V}::forget_vm(vm);\n"
    return Contract(fn, ["C03", "C09"], [], ["&vm.arch.flag", "&vm.arch.ax", "&vm.arch.dx", "val"], ens,
                    "Result<(), DivByZero>", h,
                    replay={"kind": "l1_unary", "fn": fn, "w": w, "spec": name})


def div(fn: str, w: int, signed: bool) -> Contract:
    t = "u8" if w == 8 else "u16"
    name = ("idiv" if signed else "div") + str(w)
    h = fenced() + f"        let mut in_op1: {t} = kani::any();\n        let _ = {fn}(&mut vm, &mut in_op1);\n        {V}::forget_vm(vm);\n"
    unchanged = "vm.arch.ax == old(vm.arch.ax) && vm.arch.dx == old(vm.arch.dx)"
    if w == 8:
        d = f"{S}::{name}(old(vm.arch.ax), old(*val))"
        okstate = "vm.arch.ax == ((rem << 8) | (q & 0xFF)) && vm.arch.dx == old(vm.arch.dx)"
    else:
        # 32/16 division: two 32-bit divider circuits compared head-on do not finish with SAT
        # (CaDiCaL > 20 min) but are immediate for an SMT solver when the reference divides the same
        # operands in the same width (measured 0.7 s with z3), so these two contracts run under
        # `--solver z3` (class Z).  A restructured but correct implementation may then time out:
        # that is reported as undecided (exit 2), never as a violation.
        d = f"{S}::{name}(old(vm.arch.dx), old(vm.arch.ax), old(*val))"
        okstate = "vm.arch.ax == q && vm.arch.dx == rem"
    ens = [
        (f"muldiv.{fn}.fault_iff_no_fit",
         f"match {d} {{ {S}::DivOut::Fault => r.is_err(), {S}::DivOut::Ok(_, _) => r.is_ok(), {S}::DivOut::Either(_, _) => true }}"),
        (f"muldiv.{fn}.quotient_remainder",
         f"match {d} {{ {S}::DivOut::Ok(q, rem) => {okstate}, {S}::DivOut::Either(q, rem) => r.is_err() || ({okstate}), {S}::DivOut::Fault => true }}"),
    ]
    ens += [
        (f"muldiv.{fn}.fault_changes_nothing", f"r.is_ok() || ({unchanged})"),
        (f"muldiv.{fn}.operand_unchanged", "*val == old(*val)"),
        (f"muldiv.{fn}.control_flag_bits", f"(vm.arch.flag ^ old(vm.arch.flag)) & !{S}::STATUS6 == 0"),
    ]
    return Contract(fn, ["C03", "C09"], [], ["&vm.arch.flag", "&vm.arch.ax", "&vm.arch.dx", "val"], ens,
                    "Result<(), DivByZero>", h, klass="Z",
                    replay={"kind": "l1_unary", "fn": fn, "w": w, "spec": name})


def adjust(fn: str) -> Contract:
    a = f"{S}::{fn}(old(vm.arch.ax), old(vm.arch.flag))"
    ens = [(f"adjust.{fn}.AX", f"vm.arch.ax == {a}.0"),
           (f"adjust.{fn}.defined_flags", f"(vm.arch.flag ^ {a}.1) & {a}.2 == 0")]
    h = fenced() + f"        {fn}(&mut vm);\n        {V}::forget_vm(vm);\n"
    return Contract(fn, ["C03", "C09"], [], ["&vm.arch.flag", "&vm.arch.ax"], ens, "()", h,
                    replay={"kind": "l1_nullary", "fn": fn, "spec": fn})


def cbw_cwd(fn: str) -> Contract:
    if fn == "cbw":
        ens = [("adjust.cbw.AX", f"vm.arch.ax == {S}::cbw(old(vm.arch.ax))")]
        mod = ["&vm.arch.ax"]
    else:
        ens = [("adjust.cwd.DX", f"vm.arch.dx == {S}::cwd(vm.arch.ax)")]
        mod = ["&vm.arch.dx"]
    h = fenced() + f"        {fn}(&mut vm);\n        {V}::forget_vm(vm);\n"
    return Contract(fn, ["C03", "C09"], [], mod, ens, "()", h, replay={"kind": "l1_nullary", "fn": fn, "spec": fn})


def arithmetic_contracts() -> List[Contract]:
    out = []
    for w, p in ((8, "byte"), (16, "word")):
        for op in ("Add", "Adc", "Sub", "Sbb"):
            out.append(binary_alu(f"{p}_{op.lower()}", w, op))
        out.append(unary_incdecneg(f"{p}_neg", w, "Neg"))
        out.append(mul(f"{p}_mul", w, False))
        out.append(mul(f"{p}_imul", w, True))
        out.append(div(f"{p}_div", w, False))
        out.append(div(f"{p}_idiv", w, True))
    for fn in ("aaa", "aas", "daa", "das", "aam", "aad"):
        out.append(adjust(fn))
    out.append(cbw_cwd("cbw"))
    out.append(cbw_cwd("cwd"))
    return out


def bit_contracts() -> List[Contract]:
    out = []
    for w, p in ((8, "byte"), (16, "word")):
        for op in ("And", "Or", "Xor", "Test"):
            out.append(binary_logic(f"{p}_{op.lower()}", w, op))
        for k in ("Sal", "Shr", "Sar", "Rol", "Ror", "Rcl", "Rcr"):
            out.append(shift(f"{p}_{k.lower()}", w, k))
    return out


# ------------------------------------------------------------------ L0 -----
# L0 helpers are callees of every L1 function.  Kani 0.68 makes a proof 50-500x more
# expensive when a *callee* carries contract attributes (measured: c_byte_add 2 s -> 504 s,
# 56 GB, once set_flag had a `modifies` contract), so L0 contracts are stated harness-style:
# precondition = kani::assume, postcondition = named clause assertions, frame = whole-state
# comparison on a memory-fenced VM.  The function bodies are the real ones, loop-free, over
# the full input domain: a complete proof, not a bounded one.

def A(name: str, expr: str) -> str:
    return f'        assert!({V}::clause("{name}", /*[{name}*/ {expr} /*]*/), "{name}");\n'


@dataclass
class Harness:
    name: str
    props: List[str]
    body: str
    clauses: List[str]
    fns: List[str]
    unwind: int = 0
    klass: str = "P"
    stubs: List[str] = field(default_factory=list)
    replay: dict = field(default_factory=dict)
    stub_verified: List[str] = field(default_factory=list)
    bounded: str = ""


def flag_util_harnesses() -> List[Harness]:
    b = (f"        let in_op1: u16 = kani::any();\n        let in_k: u8 = kani::any();\n        kani::assume(in_k < 9);\n"
         f"        let bit = {V}::flag_bit(&{V}::flag_of(in_k));\n")
    return [
        Harness("l0_get_flag_state", ["C06", "C01", "C17"],
                b + f"        let r = get_flag_state(in_op1, {V}::flag_of(in_k));\n" + A("l0.get_flag_state.bit", "r == (in_op1 & bit != 0)"),
                ["l0.get_flag_state.bit"], ["get_flag_state"]),
        Harness("l0_set_flag", ["C01", "C02", "C06"],
                b + f"        let mut x = in_op1;\n        set_flag(&mut x, {V}::flag_of(in_k));\n" + A("l0.set_flag.exact_bit", "x == in_op1 | bit"),
                ["l0.set_flag.exact_bit"], ["set_flag"]),
        Harness("l0_unset_flag", ["C01", "C02", "C06"],
                b + f"        let mut x = in_op1;\n        unset_flag(&mut x, {V}::flag_of(in_k));\n" + A("l0.unset_flag.exact_bit", "x == in_op1 & !bit"),
                ["l0.unset_flag.exact_bit"], ["unset_flag"]),
    ]


def interp_util_harnesses() -> List[Harness]:
    return [Harness("l0_has_even_parity", ["C01", "C02"],
                    "        let in_op1: u8 = kani::any();\n        let r = has_even_parity(in_op1);\n"
                    + A("l0.has_even_parity.popcount", f"r == {S}::parity_even(in_op1)"),
                    ["l0.has_even_parity.popcount"], ["has_even_parity"], unwind=10)]


def data_util_harnesses() -> List[Harness]:
    out = []
    out.append(Harness("l0_separate_bytes", ["C04", "C05", "C12"],
                       "        let in_op1: i16 = kani::any();\n        let r = separate_bytes(in_op1);\n"
                       + A("l0.separate_bytes.high_low", "r.0 == ((in_op1 as u16) >> 8) as u8 && r.1 == (in_op1 as u16) as u8"),
                       ["l0.separate_bytes.high_low"], ["separate_bytes"]))
    out.append(Harness("l0_get_byte_reg", ["C04", "C18"],
                       fenced() + f"        let in_k: u8 = kani::any();\n        kani::assume(in_k < 8);\n        let old = {V}::regs(&vm);\n"
                       f"        let r = get_byte_reg(&vm, {V}::byte_reg_of(in_k));\n"
                       + A("l0.get_byte_reg.aliases_half", f"r == {V}::spec_get8(&old, in_k)")
                       + A("l0.get_byte_reg.frame", f"{V}::regs(&vm) == old")
                       + f"        {V}::forget_vm(vm);\n",
                       ["l0.get_byte_reg.aliases_half", "l0.get_byte_reg.frame"], ["get_byte_reg"]))
    out.append(Harness("l0_set_byte_reg", ["C04", "C18"],
                       fenced() + f"        let in_k: u8 = kani::any();\n        kani::assume(in_k < 8);\n        let in_op1: u8 = kani::any();\n"
                       f"        let mut exp = {V}::regs(&vm);\n        {V}::spec_set8(&mut exp, in_k, in_op1);\n"
                       f"        set_byte_reg(&mut vm, {V}::byte_reg_of(in_k), in_op1);\n"
                       + A("l0.set_byte_reg.exactly_one_half", f"{V}::regs(&vm) == exp")
                       + f"        {V}::forget_vm(vm);\n",
                       ["l0.set_byte_reg.exactly_one_half"], ["set_byte_reg"]))
    out.append(Harness("l0_get_word_reg_val", ["C04"],
                       fenced() + f"        let in_k: u8 = kani::any();\n        kani::assume(in_k < 12);\n        let old = {V}::regs(&vm);\n"
                       f"        let r = get_word_reg_val(&vm, {V}::word_reg_of(in_k));\n"
                       + A("l0.get_word_reg_val.selects", f"r == {V}::spec_get16(&old, in_k)")
                       + A("l0.get_word_reg_val.frame", f"{V}::regs(&vm) == old")
                       + f"        {V}::forget_vm(vm);\n",
                       ["l0.get_word_reg_val.selects", "l0.get_word_reg_val.frame"], ["get_word_reg_val"]))
    out.append(Harness("l0_set_word_reg_val", ["C04"],
                       fenced() + f"        let in_k: u8 = kani::any();\n        kani::assume(in_k < 12);\n        let in_op1: u16 = kani::any();\n"
                       f"        let mut exp = {V}::regs(&vm);\n        {V}::spec_set16(&mut exp, in_k, in_op1);\n"
                       f"        set_word_reg_val(&mut vm, {V}::word_reg_of(in_k), in_op1);\n"
                       + A("l0.set_word_reg_val.exactly_one", f"{V}::regs(&vm) == exp")
                       + f"        {V}::forget_vm(vm);\n",
                       ["l0.set_word_reg_val.exactly_one"], ["set_word_reg_val"]))
    return out


def address_harnesses() -> List[Harness]:
    MBx = "crate::vm::MB as usize"
    out = []
    out.append(Harness("l0_make_valid_address", ["C04", "C09"],
                       "        let in_op1: usize = kani::any();\n        let r = make_valid_address(in_op1);\n"
                       + A("l0.make_valid_address.mod_2_20", f"r == in_op1 % (1usize << 20) && r < {MBx}"),
                       ["l0.make_valid_address.mod_2_20"], ["make_valid_address"]))
    out.append(Harness("l0_inc_addr", ["C04", "C09", "C12"],
                       f"        let in_op1: usize = kani::any();\n        let in_op2: usize = kani::any();\n"
                       f"        kani::assume(in_op1 < {MBx} && in_op2 <= 0x10000); // call sites: inc_addr(m,1), inc_addr(base, al)\n"
                       "        let r = inc_addr(in_op1, in_op2);\n"
                       + A("l0.inc_addr.wraps_at_1mb", f"r == (in_op1 + in_op2) % (1usize << 20) && r < {MBx}"),
                       ["l0.inc_addr.wraps_at_1mb"], ["inc_addr"]))
    out.append(Harness("l0_calculate_from_offset_u16_u16", ["C04", "C09"],
                       "        let in_op1: u16 = kani::any();\n        let in_op2: u16 = kani::any();\n"
                       "        let r = Address::calculate_from_offset(in_op1, in_op2);\n"
                       + A("l0.calculate_from_offset.u16_u16", f"r == {S}::phys(in_op1, in_op2) && r < {MBx}"),
                       ["l0.calculate_from_offset.u16_u16"], ["Address::calculate_from_offset"]))
    out.append(Harness("l0_calculate_from_offset_u16_usize", ["C04", "C09", "C12"],
                       "        let in_op1: u16 = kani::any();\n        let in_op2: usize = kani::any();\n"
                       "        kani::assume(in_op2 <= 0x2FFFF); // call sites: label offsets and loader counters\n"
                       "        let r = Address::calculate_from_offset(in_op1, in_op2);\n"
                       + A("l0.calculate_from_offset.u16_usize", f"r == ((in_op1 as usize) * 16 + in_op2) % (1usize << 20) && r < {MBx}"),
                       ["l0.calculate_from_offset.u16_usize"], ["Address::calculate_from_offset"]))
    return out


CONTRACTS: Dict[str, List[Contract]] = {
    "src/lib/instructions/arithmetic.rs": arithmetic_contracts(),
    "src/lib/instructions/bit_manipulation.rs": bit_contracts(),
}

def incdec_harnesses() -> List[Harness]:
    """INC/DEC call the contracted ADD/SUB.  proof_for_contract + stub_verified costs ~100 s in Kani 0.68,
    a plain proof harness with stub_verified(callee) 3 s: so these four are stated harness-style and are
    proved against byte_add/byte_sub's CONTRACT (stub_verified), not their bodies."""
    out = []
    for w, p in ((8, "byte"), (16, "word")):
        t = "u8" if w == 8 else "u16"
        for op, callee in (("Inc", "add"), ("Dec", "sub")):
            fn = f"{p}_{op.lower()}"
            body = fenced() + f"        let in_op1: {t} = kani::any();\n        let mut v = in_op1;\n        let old = {V}::regs(&vm);\n"
            body += f"        let r = {fn}(&mut vm, &mut v);\n        let e = {S}::una{w}({S}::Una::{op}, in_op1, in_flag);\n"
            body += A(f"arith.{fn}.ok", "r.is_ok()")
            body += A(f"arith.{fn}.result", "v == e.0")
            for name, bit in FLAGBITS:
                body += A(f"arith.{fn}.{name}", f"vm.arch.flag & {S}::{bit} == e.1 & {S}::{bit}")
            body += A(f"arith.{fn}.other_flag_bits", f"vm.arch.flag & !{S}::STATUS6 == in_flag & !{S}::STATUS6")
            body += f"        let mut exp = old;\n        exp.flag = vm.arch.flag;\n"
            body += A(f"arith.{fn}.frame", f"{V}::regs(&vm) == exp")
            body += f"        {V}::forget_vm(vm);\n"
            cl = [f"arith.{fn}.{x}" for x in ["ok", "result", "CF", "PF", "AF", "ZF", "SF", "OF", "other_flag_bits", "frame"]]
            h = Harness("c_" + fn, ["C01", "C09"], body, cl, [fn])
            h.stub_verified = [f"{p}_{callee}"]
            h.replay = {"kind": "l1_unary", "fn": fn, "w": w, "spec": "una", "op": op}
            out.append(h)
        # CMP (implemented on top of SUB): proved against SUB's contract as well
        fn = f"{p}_cmp"
        body = fenced() + f"        let in_op1: {t} = kani::any();\n        let in_op2: {t} = kani::any();\n        let old = {V}::regs(&vm);\n"
        body += f"        let r = {fn}(&mut vm, in_op1, in_op2);\n        let e = {S}::alu{w}({S}::Alu::Cmp, in_op1, in_op2, in_flag & 1 != 0);\n"
        body += A(f"arith.{fn}.result", "r == in_op1")
        for name, bit in FLAGBITS:
            body += A(f"arith.{fn}.{name}", f"vm.arch.flag & {S}::{bit} == e.1 & {S}::{bit}")
        body += A(f"arith.{fn}.other_flag_bits", f"vm.arch.flag & !{S}::STATUS6 == in_flag & !{S}::STATUS6")
        body += f"        let mut exp = old;\n        exp.flag = vm.arch.flag;\n"
        body += A(f"arith.{fn}.frame", f"{V}::regs(&vm) == exp")
        body += f"        {V}::forget_vm(vm);\n"
        cl = [f"arith.{fn}.{x}" for x in ["result", "CF", "PF", "AF", "ZF", "SF", "OF", "other_flag_bits", "frame"]]
        h = Harness("c_" + fn, ["C01", "C09"], body, cl, [fn])
        h.stub_verified = [f"{p}_sub"]
        h.replay = {"kind": "l1_binary", "fn": fn, "w": w, "spec": "alu", "op": "Cmp"}
        out.append(h)
    return out


def string_harnesses() -> List[Harness]:
    """C07, L1: the ten string functions on a fully nondeterministic 1 MB memory (class M).
    source element at DS:SI, destination element at ES:DI, word = the two bytes at phys and phys+1 mod 2^20
    read/written as a whole, pointers +-1/+-2 mod 2^16 by DF, CMPS = flags of src - dst, SCAS = flags of
    acc - dst, nothing else changes (symbolic frame cell in_p)."""
    MBx = "(crate::vm::MB as usize)"
    out = []
    for fam, fnbase in (("movs", "movs"), ("lods", "loads"), ("stos", "stos"), ("cmps", "cmps"), ("scas", "scas")):
        for w, wn in ((8, "byte"), (16, "word")):
            fn = f"{fnbase}_{wn}"
            size = 1 if w == 8 else 2
            b = heap()
            b += f"        let src: usize = {S}::phys(in_ds, in_si);\n        let dst: usize = {S}::phys(in_es, in_di);\n"
            b += f"        let in_s0: u8 = vm.mem[src];\n        let in_s1: u8 = vm.mem[{S}::next(src)];\n"
            b += f"        let in_d0: u8 = vm.mem[dst];\n        let in_d1: u8 = vm.mem[{S}::next(dst)];\n"
            b += f"        let in_p: usize = kani::any();\n        kani::assume(in_p < {MBx});\n        let in_p0: u8 = vm.mem[in_p];\n"
            b += f"        let old = {V}::regs(&vm);\n"
            b += f"        {fn}(&mut vm);\n"
            b += f"        let mut exp = old;\n        let down = old.flag & {S}::DF != 0;\n"
            b += f"        let stp = |x: u16| if down {{ x.wrapping_sub({size}) }} else {{ x.wrapping_add({size}) }};\n"
            sv = "in_s0" if w == 8 else "((in_s0 as u16) | ((in_s1 as u16) << 8))"
            dv = "in_d0" if w == 8 else "((in_d0 as u16) | ((in_d1 as u16) << 8))"
            acc = "(old.ax as u8)" if w == 8 else "old.ax"
            writes = []
            if fam == "movs":
                b += "        exp.si = stp(old.si);\n        exp.di = stp(old.di);\n"
                writes = [("dst", "in_s0")] + ([(f"{S}::next(dst)", "in_s1")] if w == 16 else [])
            elif fam == "lods":
                b += "        exp.si = stp(old.si);\n"
                b += ("        exp.ax = (old.ax & 0xFF00) | in_s0 as u16;\n" if w == 8 else f"        exp.ax = {sv};\n")
            elif fam == "stos":
                b += "        exp.di = stp(old.di);\n"
                writes = [("dst", "(old.ax as u8)")] + ([(f"{S}::next(dst)", "((old.ax >> 8) as u8)")] if w == 16 else [])
            elif fam in ("cmps", "scas"):
                first = sv if fam == "cmps" else acc
                if fam == "cmps":
                    b += "        exp.si = stp(old.si);\n"
                b += "        exp.di = stp(old.di);\n"
                b += f"        exp.flag = {S}::merge(old.flag, {S}::alu{w}({S}::Alu::Sub, {first}, {dv}, false).1, {S}::STATUS6);\n"
            b += f"        {V}::check_regs(&vm, &exp, /*[regmask*/ 0 /*]*/);\n"
            if writes:
                exp_p = "in_p0"
                for a, v in writes:
                    exp_p = f"if in_p == {a} {{ {v} }} else {{ {exp_p} }}"
                inws = " || ".join(f"in_p == {a}" for a, _ in writes)
                b += f"        let exp_p: u8 = {exp_p};\n        if {inws} {{\n"
                b += f'            assert!(/*[mem.dest*/ vm.mem[in_p] == exp_p /*]*/, "mem.dest");\n        }} else {{\n'
                b += f'            assert!(/*[mem.frame*/ vm.mem[in_p] == in_p0 /*]*/, "mem.frame");\n        }}\n'
                cl = ["mem.dest", "mem.frame"]
            else:
                b += f'        assert!(/*[mem.frame*/ vm.mem[in_p] == in_p0 /*]*/, "mem.frame");\n'
                cl = ["mem.frame"]
            b += f"        {V}::forget_vm(vm);\n"
            h = Harness("c_" + fn, ["C07", "C09"], b, ["reg." + r for r in INPUT_REGS] + cl, [fn], klass="M")
            if fam in ("cmps", "scas"):
                # bit-level flag arithmetic over symbolic memory: z3 does not finish in 15 min, SAT with arrays as
                # uninterpreted functions does in ~80 s (11 GB); byte_sub carries a contract, which Kani refuses to stub
                h.klass = "S"
            h.replay = {"kind": "l3", "shape": "string_l1", "mn": fam, "w": wn}
            out.append(h)
    return out


def vm_harnesses() -> List[Harness]:
    MBx = "(crate::vm::MB as usize)"
    b = f"        let in_p: usize = kani::any();\n        kani::assume(in_p < {MBx});\n        let vm = VM::new();\n"
    b += A("vm.new.flags_F000", "vm.arch.flag == 0xF000")
    b += A("vm.new.cs_FFFF", "vm.arch.cs == 0xFFFF")
    b += A("vm.new.other_registers_zero", "vm.arch.ax == 0 && vm.arch.bx == 0 && vm.arch.cx == 0 && vm.arch.dx == 0 && vm.arch.sp == 0 && vm.arch.bp == 0 "
           "&& vm.arch.si == 0 && vm.arch.di == 0 && vm.arch.ip == 0 && vm.arch.ds == 0 && vm.arch.ss == 0 && vm.arch.es == 0")
    b += A("vm.new.memory_zero", "vm.mem[in_p] == 0")
    h = Harness("l0_vm_new", ["C19", "C09"], b, ["vm.new.flags_F000", "vm.new.cs_FFFF", "vm.new.other_registers_zero", "vm.new.memory_zero"], ["VM::new"], klass="M")
    # the other public way to obtain a machine (`impl Default for VM`): "a new machine ALWAYS starts with ..."
    b2 = b.replace("VM::new()", "<VM as Default>::default()").replace("vm.new.", "vm.default.")
    h2 = Harness("l0_vm_default", ["C19", "C09"], b2, ["vm.default.flags_F000", "vm.default.cs_FFFF", "vm.default.other_registers_zero", "vm.default.memory_zero"], ["VM::default"], klass="M")
    return [h, h2]


def lexer_harnesses() -> List[Harness]:
    """C16, BOUNDED: LexerHelper::get_line over every newline list of at most N strictly increasing positions
    (gaps < 1000; N = 4 in the quick tier, 7 in the thorough tier) and every position inside the input.  The body
    iterates with iter().enumerate(), which Verus rejects; unwind(N+3) with unwinding assertions.  Reported as
    bounded, never counted as proved."""
    import os
    N = 7 if os.environ.get("VERIF_TIER_EFFECTIVE") == "thorough" else 4
    gs = " ".join(f"let in_g{k}: usize = kani::any();" for k in range(N))
    ass = " && ".join(f"in_g{k} < 1000" for k in range(N))
    ps = "let p0 = in_g0; " + " ".join(f"let p{k} = p{k-1} + 1 + in_g{k};" for k in range(1, N))
    arr = ", ".join(f"p{k}" for k in range(N))
    nxt = " ".join(f"{k + 1} => p{k} + 1," for k in range(N - 1))
    b = f"""        let in_n: usize = kani::any();
        kani::assume(in_n <= {N});
        {gs}
        kani::assume({ass});
        {ps}
        let mut v: Vec<usize> = vec![{arr}];
        v.truncate(in_n);
        let next: usize = match in_n {{ 0 => 0, {nxt} _ => p{N - 1} + 1 }};
        let in_tail: usize = kani::any();
        kani::assume(in_tail < 1000);
        let len = next + in_tail;
        let nl = [{arr}];
        let lh = LexerHelper {{ temp_line: 0, newline_list: v, input_len: len }};
        let in_pos: usize = kani::any();
        kani::assume(in_pos <= len);
        let (line, start, end) = lh.get_line(in_pos);
"""
    b += A("lexer.get_line.contains_position", "start <= in_pos && in_pos <= end && end <= len")
    b += f"""        let mut before = 0usize; let mut inside = false; let mut start_ok = start == 0; let mut end_ok = end == len;
        let mut j = 0;
        while j < {N} {{
            if j < in_n {{
                if nl[j] < start {{ before += 1; }}
                if start <= nl[j] && nl[j] < end {{ inside = true; }}
                if nl[j] + 1 == start {{ start_ok = true; }}
                if nl[j] == end {{ end_ok = true; }}
            }}
            j += 1;
        }}
"""
    b += A("lexer.get_line.no_newline_inside_the_line", "!inside")
    b += A("lexer.get_line.starts_after_a_newline_or_at_0", "start_ok")
    b += A("lexer.get_line.ends_at_a_newline_or_end_of_input", "end_ok")
    b += A("lexer.get_line.line_number_counts_newlines_before", "line == before")
    h = Harness("b_lexer_get_line", ["C16", "C09"], b,
                ["lexer.get_line.contains_position", "lexer.get_line.no_newline_inside_the_line", "lexer.get_line.starts_after_a_newline_or_at_0",
                 "lexer.get_line.ends_at_a_newline_or_end_of_input", "lexer.get_line.line_number_counts_newlines_before"],
                ["LexerHelper::get_line"], unwind=N + 3)
    h.bounded = f"newline list of at most {N} positions, gaps < 1000, unwind({N + 3}) with unwinding assertions"
    # LexerHelper::new on EVERY string of at most 2 characters over an alphabet with 1-, 2- and 3-byte characters
    # (31 literals, enumerated: symbolic strings make CBMC's model of String/char decoding too expensive)
    import itertools
    alpha = ["a", "\\n", " ", "\\u{e9}", "\\u{20ac}"]
    lits = [""] + ["".join(t) for n in (1, 2) for t in itertools.product(alpha, repeat=n)]
    arr = ", ".join('"' + x + '"' for x in lits)
    b2 = f"        let all: [&str; {len(lits)}] = [{arr}];\n"
    b2 += f"""        let mut t = 0;
        while t < {len(lits)} {{
            let text = all[t];
            let lh = LexerHelper::new(text);
            let bytes = text.as_bytes();
            let mut cnt = 0usize; let mut ok = true; let mut k = 0;
            while k < bytes.len() {{
                if bytes[k] == 10 {{
                    if cnt >= lh.newline_list.len() || lh.newline_list[cnt] != k {{ ok = false; }}
                    cnt += 1;
                }}
                k += 1;
            }}
"""
    b2 += "    " + A("lexer.new.input_len_is_byte_length", "lh.input_len == bytes.len()")
    b2 += "    " + A("lexer.new.newline_list_is_byte_positions_of_newlines", "ok && cnt == lh.newline_list.len()")
    b2 += "            t += 1;\n        }\n"
    h2 = Harness("b_lexer_new", ["C16", "C09"], b2,
                 ["lexer.new.input_len_is_byte_length", "lexer.new.newline_list_is_byte_positions_of_newlines"],
                 ["LexerHelper::new"], unwind=len(lits) + 2)
    h2.bounded = "all 31 strings of at most 2 characters over {a, newline, blank, U+00E9 (2 bytes), U+20AC (3 bytes)}, enumerated"
    return [h, h2]


def spec_selfcheck_harnesses() -> List[Harness]:
    """The oracle i8086_spec.rs is hand-transcribed; these units cross-check it against an independent
    formulation (carry-chain / bitwise identities instead of widening arithmetic), for all inputs.
    They involve no emulator code: they reduce the trust placed in the transcription."""
    out = []
    for w, t, top in ((8, "u8", "0x80"), (16, "u16", "0x8000")):
        sh = w - 1
        for op, sub in (("Add", False), ("Adc", False), ("Sub", True), ("Sbb", True)):
            b = f"        let a: {t} = kani::any();\n        let b: {t} = kani::any();\n        let cin: bool = kani::any();\n"
            b += f"        let (r, f) = {S}::alu{w}({S}::Alu::{op}, a, b, cin);\n"
            c = "(cin as " + t + ")" if op in ("Adc", "Sbb") else "0"
            if not sub:
                b += f"        let r2 = a.wrapping_add(b).wrapping_add({c});\n"
                b += f"        let carries = (a & b) | ((a | b) & !r2);\n"            # carry out of each bit position
                b += f"        let of2 = ((a ^ r2) & (b ^ r2)) & {top} != 0;\n"
            else:
                b += f"        let r2 = a.wrapping_sub(b).wrapping_sub({c});\n"
                b += f"        let carries = (!a & b) | ((!a | b) & r2);\n"           # borrow out of each bit position
                b += f"        let of2 = ((a ^ b) & (a ^ r2)) & {top} != 0;\n"
            b += A(f"spec.alu{w}.{op}.result", "r == r2")
            b += A(f"spec.alu{w}.{op}.CF", f"(f & {S}::CF != 0) == (carries & {top} != 0)")
            b += A(f"spec.alu{w}.{op}.AF", f"(f & {S}::AF != 0) == (carries & 0x08 != 0)")
            b += A(f"spec.alu{w}.{op}.OF", f"(f & {S}::OF != 0) == of2")
            b += A(f"spec.alu{w}.{op}.ZF_SF", f"(f & {S}::ZF != 0) == (r2 == 0) && (f & {S}::SF != 0) == (r2 & {top} != 0)")
            b += A(f"spec.alu{w}.{op}.PF", f"(f & {S}::PF != 0) == ((r2 as u8).count_ones() % 2 == 0)")
            out.append(Harness(f"s_alu{w}_{op.lower()}", ["C01"], b,
                               [f"spec.alu{w}.{op}.{x}" for x in ("result", "CF", "AF", "OF", "ZF_SF", "PF")], ["i8086_spec::alu" + str(w)], unwind=10))
        # shifts / rotates: the N-step reference against closed forms for counts below the width
        for k, closed in (("Sal", "v << n"), ("Shr", "v >> n"), ("Rol", "v.rotate_left(n as u32)"), ("Ror", "v.rotate_right(n as u32)")):
            b = f"        let v: {t} = kani::any();\n        let n: {t} = kani::any();\n        kani::assume(n >= 1 && n < {w});\n        let cf: bool = kani::any();\n"
            b += f"        let (r, c) = {S}::sh_n({S}::Sh::{k}, {w}, v as u32, cf, n as u32);\n"
            b += A(f"spec.sh{w}.{k}.closed_form", f"r as {t} == {closed}")
            last = {"Sal": f"(v >> ({w} - n)) & 1 != 0", "Shr": "(v >> (n - 1)) & 1 != 0",
                    "Rol": f"({closed}) & 1 != 0", "Ror": f"({closed}) & {top} != 0"}[k]
            b += A(f"spec.sh{w}.{k}.CF_is_last_bit_out", f"c == ({last})")
            out.append(Harness(f"s_sh{w}_{k.lower()}", ["C02"], b, [f"spec.sh{w}.{k}.closed_form", f"spec.sh{w}.{k}.CF_is_last_bit_out"],
                               ["i8086_spec::sh_n"], unwind=w + 3))
    # division reference: quotient * divisor + remainder == dividend, |remainder| < |divisor|
    b = "        let ax: u16 = kani::any();\n        let v: u8 = kani::any();\n"
    b += f"        match {S}::div8(ax, v) {{\n            {S}::DivOut::Ok(q, r) => {{\n"
    b += "    " + A("spec.div8.euclid", "v != 0 && q <= 0xFF && (r as u32) < v as u32 && q as u32 * v as u32 + r as u32 == ax as u32")
    b += f"            }}\n            _ => {{\n    " + A("spec.div8.fault_iff", "v == 0 || (ax as u32) / (if v == 0 { 1 } else { v as u32 }) > 0xFF") + "            }\n        }\n"
    out.append(Harness("s_div8", ["C03"], b, ["spec.div8.euclid", "spec.div8.fault_iff"], ["i8086_spec::div8"]))
    b = "        let al: u8 = kani::any();\n        let v: u8 = kani::any();\n"
    b += f"        let (p, c) = {S}::imul8(al, v);\n"
    b += A("spec.imul8.product", "p as i16 as i32 == (al as i8 as i32) * (v as i8 as i32)")
    b += A("spec.imul8.CF_OF_iff_AH_not_sign_extension", "c == ((p >> 8) as u8 != (if p & 0x80 != 0 { 0xFFu8 } else { 0u8 }))")
    out.append(Harness("s_imul8", ["C03"], b, ["spec.imul8.product", "spec.imul8.CF_OF_iff_AH_not_sign_extension"], ["i8086_spec::imul8"]))
    return out


L0_HARNESSES: Dict[str, List[Harness]] = {
    "src/lib/arch.rs": spec_selfcheck_harnesses(),
    "src/lib/preprocessor/lexer_helper.rs": lexer_harnesses(),
    "src/lib/vm.rs": vm_harnesses(),
    "src/lib/instructions/string.rs": string_harnesses(),
    "src/lib/instructions/arithmetic.rs": incdec_harnesses(),
    "src/lib/util/flag_util.rs": flag_util_harnesses(),
    "src/lib/util/interpreter_util.rs": interp_util_harnesses(),
    "src/lib/util/data_util.rs": data_util_harnesses(),
    "src/lib/util/address.rs": address_harnesses(),
}

STUB_VERIFIED = {}


def l0_module(hs: List[Harness]) -> str:
    out = ["", "#[cfg(kani)]", "mod verif_l0 {", "    use super::*;"]
    for h in hs:
        out.append("    #[kani::proof]")
        if h.unwind:
            out.append(f"    #[kani::unwind({h.unwind})]")
        for st in h.stubs:
            out.append(f"    #[kani::stub({st})]")
        for st in h.stub_verified:
            out.append(f"    #[kani::stub_verified({st})]")
        out.append(f"    fn {h.name}() {{")
        out.append(h.body.rstrip("\n"))
        out.append(f'        kani::cover!(true, "{h.name} reachable");')
        out.append("    }")
    out.append("}")
    return "\n".join(out) + "\n"


def harness_module(file: str, contracts: List[Contract]) -> str:
    out = ["", "#[cfg(kani)]", "mod verif_l1 {", "    use super::*;"]
    for c in contracts:
        out.append(f"    #[kani::proof_for_contract({c.fn}{c.generic_inst})]")
        for st in STUB_VERIFIED.get(c.fn, []):
            out.append(f"    #[kani::stub_verified({st})]")
        if c.unwind:
            out.append(f"    #[kani::unwind({c.unwind})]")
        out.append(f"    fn c_{c.fn}() {{")
        out.append(c.harness.rstrip("\n"))
        out.append(f'        kani::cover!(true, "c_{c.fn} reachable");')
        out.append("    }")
    out.append("}")
    return "\n".join(out) + "\n"
