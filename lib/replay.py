"""Counterexample recording and native replay on the real crate.

record(): writes /verif/replays/<pid>/<unit>__<clause>.json with the obligation, the verifier's
output, the inputs read from the CBMC trace, and (where a replay recipe exists) the result of
re-executing those inputs natively through the real function / the real Interpreter::parse.
`./check replay <path>` re-executes a recorded file against /repo's current tree.
"""
import json
import os
import re
import shutil
import subprocess

from scratch import VERIF, ENV, Undecided
import scratch

REGS = ["flag", "ax", "bx", "cx", "dx", "sp", "bp", "si", "di", "ip", "cs", "ds", "ss", "es"]
BYTE_NAMES = ["al", "ah", "bl", "bh", "cl", "ch", "dl", "dh"]
WORD_NAMES = ["ax", "bx", "cx", "dx", "ss", "cs", "ds", "es", "sp", "bp", "si", "di"]
MB = 1 << 20
TARGET = os.path.join(VERIF, ".cache", "replay-target")


def build_tool(repo_copy: str) -> str:
    """build the replay tool against a copy of the crate (no annotation is visible natively: cfg(kani))"""
    root = os.path.dirname(repo_copy)
    d = os.path.join(root, "replay_tool")
    if not os.path.exists(d):
        os.makedirs(d)
        tpl = open(os.path.join(VERIF, "replay", "Cargo.toml.in")).read().replace("@REPO@", repo_copy)
        open(os.path.join(d, "Cargo.toml"), "w").write(tpl)
        os.symlink(os.path.join(VERIF, "replay", "src"), os.path.join(d, "src"))
        shutil.copy(os.path.join(repo_copy, "Cargo.lock"), os.path.join(d, "Cargo.lock"))
        # the copy's generated parsers are current; its build script must not run lalrpop again
        open(os.path.join(repo_copy, "build.rs"), "w").write("fn main() {}\n")
    p = subprocess.run(["cargo", "build", "--offline"], cwd=d, env=dict(ENV, CARGO_TARGET_DIR=TARGET),
                       stdout=subprocess.PIPE, stderr=subprocess.STDOUT, text=True, timeout=1800)
    if p.returncode != 0:
        raise Undecided("replay tool does not build against the current tree:\n" + p.stdout[-3000:])
    return os.path.join(TARGET, "debug", "verif-replay")


def ask(tool: str, lines):
    p = subprocess.run([tool], input="\n".join(lines) + "\n", stdout=subprocess.PIPE, stderr=subprocess.STDOUT,
                       text=True, timeout=120)
    out = []
    for ln in p.stdout.strip().split("\n"):
        try:
            out.append(json.loads(ln))
        except Exception:
            out.append({"error": ln[:300]})
    return out


def g(inputs, name, default=0):
    v = inputs.get(name, default)
    return int(v)


def u16(x):
    return x & 0xFFFF


# ------------------------------------------------------------------------ L3 reference

def get8(r, k):
    w = r[["ax", "ax", "bx", "bx", "cx", "cx", "dx", "dx"][k]]
    return (w >> 8) & 0xFF if k & 1 else w & 0xFF


def set8(r, k, v):
    n = ["ax", "ax", "bx", "bx", "cx", "cx", "dx", "dx"][k]
    r[n] = (r[n] & 0x00FF) | ((v & 0xFF) << 8) if k & 1 else (r[n] & 0xFF00) | (v & 0xFF)


def phys(seg, off):
    return ((seg << 4) + (off & 0xFFFF)) % MB


class L3:
    """concrete re-statement of the production contracts of kani_l3 for one input"""

    def __init__(self, rp, inputs, tool, fill=0):
        self.rp, self.inp, self.tool = rp, inputs, tool
        self.regs = {r: u16(g(inputs, "in_" + r)) for r in REGS}
        self.m = g(inputs, "in_m") % MB
        self.mem = {}            # initial pokes
        self.fill = fill         # value of every memory cell the counterexample does not name (free in the verifier's model)
        self.labels = []
        self.ops = rp.get("ops", [])
        self.lab = rp.get("lab", [])
        # an operand the grammar takes from `seg_reg`: the production is verified for every word register, but its source form
        # exists for ES/DS/SS/CS only -- a counterexample naming another register is replayed with ES holding that register's value
        self.inp = inputs = dict(inputs)
        for o in self.ops:
            if o[0] == "wreg" and len(o) > 2 and o[2] == "seg" and g(inputs, o[1]) % 12 not in (4, 5, 6, 7):
                self.regs["es"] = self.regs[WORD_NAMES[g(inputs, o[1]) % 12]]
                inputs[o[1]] = 7
                self.remapped = f"operand `{o[1]}` replayed as ES (holding the value the counterexample gives its register)"
        self.used_word = {g(inputs, o[1]) for o in self.ops if o[0] == "wreg"}
        if any(o[0] in ("bmem", "wmem") for o in self.ops):
            self.mem[self.m] = g(inputs, "in_m0") & 0xFF
            self.mem[(self.m + 1) % MB] = g(inputs, "in_m1") & 0xFF
        self.memseg = None

    def text(self, i):
        kind, var, ty = self.ops[i]
        if kind == "breg":
            return BYTE_NAMES[g(self.inp, var) % 8]
        if kind == "wreg":
            return WORD_NAMES[g(self.inp, var) % 12]
        if kind in ("bmem", "wmem"):
            kw = "byte" if kind == "bmem" else "word"
            if self.lab[i]:
                self.labels.append(("opnd", (self.m - self.regs["ds"] * 16) % MB))
                return f"{kw} opnd"
            # direct addressing through a segment register that is not an operand, set so that seg*16+off == m
            for cand, ix in (("es", 7), ("cs", 5), ("ss", 4), ("ds", 6)):
                if ix not in self.used_word:
                    self.memseg = cand
                    break
            self.regs[self.memseg] = self.m >> 4
            return f"{kw} {self.memseg}:[{self.m & 0xF}]"
        if kind in ("imm8", "imm16"):
            v = g(self.inp, var)
            if ty in ("i8", "i16") and v < 0:
                return str(v)
            if ty == "i8":
                return str(v & 0xFF if v >= 0 else v)
            return str(v & (0xFF if kind == "imm8" else 0xFFFF)) if ty.startswith("u") else str(v)
        if kind == "cl":
            return "cl"
        if kind == "cs":
            return "cs"
        return "?"

    def old(self, i, r):
        kind, var, ty = self.ops[i]
        if kind == "breg":
            return get8(r, g(self.inp, var) % 8)
        if kind == "wreg":
            return r[WORD_NAMES[g(self.inp, var) % 12]]
        if kind == "bmem":
            return self.mem[self.m]
        if kind == "wmem":
            return self.mem[self.m] | (self.mem[(self.m + 1) % MB] << 8)
        if kind == "imm8":
            return g(self.inp, var) & 0xFF
        if kind == "imm16":
            return g(self.inp, var) & 0xFFFF
        if kind == "cl":
            return get8(r, 4)
        if kind == "cs":
            return r["cs"]

    def write(self, i, val, exp, expmem):
        kind, var, ty = self.ops[i]
        if kind == "breg":
            set8(exp, g(self.inp, var) % 8, val)
        elif kind == "wreg":
            exp[WORD_NAMES[g(self.inp, var) % 12]] = val & 0xFFFF
        elif kind == "bmem":
            expmem[self.m] = val & 0xFF
        elif kind == "wmem":
            expmem[self.m] = val & 0xFF
            expmem[(self.m + 1) % MB] = (val >> 8) & 0xFF

    def run(self, line, cells):
        head = " ".join(str(self.regs[r]) for r in REGS)
        pokes = " ".join(f"{a} {v}" for a, v in self.mem.items())
        labs = " ".join(f"{n} {m}" for n, m in self.labels)
        req = f"runf {self.fill} {head} {len(self.mem)} {pokes} {len(self.labels)} {labs} | {line} ; " + " ".join(str(c) for c in cells)
        return ask(self.tool, [req])[0], req

    def go(self):
        shape = self.rp.get("shape")
        f = getattr(self, "s_" + shape, None)
        if f is None:
            return None
        return f()

    def finish(self, line, exp, expmem, outcome=None, extra_cells=()):
        cells = sorted(set(list(expmem.keys()) + list(self.mem.keys()) + list(extra_cells)))
        obs, req = self.run(line, cells)
        mism = []
        if "panic" in obs or "error" in obs:
            return {"line": line, "request": req, "observed": obs, "mismatch": ["abort: " + str(obs)[:200]], "confirmed": True}
        for r in REGS:
            if obs[r] != exp[r]:
                mism.append(f"{r}: observed {obs[r]:#x} expected {exp[r]:#x}")
        oc = dict((a, v) for a, v in obs["cells"])
        for a in cells:
            want = expmem.get(a, self.mem.get(a, self.fill))
            if oc.get(a) != want:
                mism.append(f"mem[{a:#x}]: observed {oc.get(a)} expected {want}")
        if outcome is not None and obs["outcome"] != outcome:
            mism.append(f"outcome: observed {obs['outcome']} expected {outcome}")
        return {"line": line, "request": req, "initial_regs": dict(self.regs), "initial_mem": {hex(a): v for a, v in self.mem.items()},
                "observed": obs, "expected_regs": exp, "expected_mem": {hex(a): v for a, v in expmem.items()},
                "mismatch": mism, "confirmed": bool(mism), **({"operand_remap": self.remapped} if getattr(self, "remapped", None) else {})}

    # ---- shapes
    def s_binary(self):
        byte = self.rp["byte"]
        # the verifier's counterexample is over an arbitrary operation (probe); natively real mnemonics stand in for it:
        # a non-commutative one first (operand order), TEST for the write-back of the first operand
        mns = ["sub", "cmp", "add"] if self.rp.get("nt") == "binary_arithmetic" else ["test", "xor", "and"]
        first = None
        for mn in mns:
            self.labels = []
            a, b = self.text(0), self.text(1)
            line = f"{mn} {a},{b}"
            r0 = dict(self.regs)
            d, s = self.old(0, r0), self.old(1, r0)
            fn = ("byte_" if byte else "word_") + mn
            f = ask(self.tool, [f"l1b {fn} {r0['flag']} {d} {s}"])[0]["observed"]
            exp, em = dict(r0), {}
            exp["flag"] = f["flag"]
            self.write(0, f["ret"], exp, em)
            res = self.finish(line, exp, em)
            if res["confirmed"]:
                return res
            first = first or res
        return first

    def s_shift(self):
        byte = self.rp["byte"]
        line = f"rol {self.text(0)},{self.text(1)}"
        r0 = dict(self.regs)
        d, c = self.old(0, r0), self.old(1, r0)
        f = ask(self.tool, [f"l1b {'byte_' if byte else 'word_'}rol {r0['flag']} {d} {c}"])[0]["observed"]
        exp, em = dict(r0), {}
        exp["flag"] = f["flag"]
        self.write(0, f["ret"], exp, em)
        return self.finish(line, exp, em)

    def s_unary(self):
        byte = self.rp["byte"]
        pr = self.inp.get("_probe", {})
        mns = ["mul", "inc"] if pr.get("P_VAL") == pr.get("P_A") else ["inc", "mul"]
        kind, var, ty = self.ops[0]
        first = None
        # the verifier's counterexample is stated over an arbitrary operation (probe); natively the real
        # MUL / INC stand in for it, and the operand value is varied if the recorded one shows nothing
        for mn in mns:
            for alt in (None, 2, 3, 0x10, 0xFF):
                regs_backup, mem_backup = dict(self.regs), dict(self.mem)
                if alt is not None:
                    if kind == "breg":
                        set8(self.regs, g(self.inp, var) % 8, alt)
                    elif kind == "wreg":
                        self.regs[WORD_NAMES[g(self.inp, var) % 12]] = alt
                    else:
                        self.mem[self.m] = alt
                self.labels = []
                line = f"{mn} {self.text(0)}"
                r0 = dict(self.regs)
                v = self.old(0, r0)
                f = ask(self.tool, [f"l1u {'byte_' if byte else 'word_'}{mn} {r0['flag']} {r0['ax']} {r0['dx']} {v}"])[0]["observed"]
                exp, em = dict(r0), {}
                if f["ok"]:
                    exp["flag"], exp["ax"], exp["dx"] = f["flag"], f["ax"], f["dx"]
                    if f["val"] != v:
                        self.write(0, f["val"], exp, em)
                res = self.finish(line, exp, em, "NEXT" if f["ok"] else "INT(0)")
                res["operand_value_varied_to"] = alt
                if res["confirmed"]:
                    return res
                first = first or res
                self.regs, self.mem = regs_backup, mem_backup
        return first

    def s_not(self):
        line = f"not {self.text(0)}"
        r0 = dict(self.regs)
        exp, em = dict(r0), {}
        w = 0xFF if self.ops[0][0] in ("breg", "bmem") else 0xFFFF
        self.write(0, (~self.old(0, r0)) & w, exp, em)
        return self.finish(line, exp, em)

    def s_mov(self):
        line = f"mov {self.text(0)},{self.text(1)}"
        r0 = dict(self.regs)
        exp, em = dict(r0), {}
        self.write(0, self.old(1, r0), exp, em)
        return self.finish(line, exp, em)

    def s_xchg(self):
        line = f"xchg {self.text(0)},{self.text(1)}"
        r0 = dict(self.regs)
        exp, em = dict(r0), {}
        va, vb = self.old(0, r0), self.old(1, r0)
        self.write(0, vb, exp, em)
        self.write(1, va, exp, em)
        return self.finish(line, exp, em)

    def s_push(self):
        t = self.text(0)
        line = f"push {t}"
        r0 = dict(self.regs)
        exp, em = dict(r0), {}
        exp["sp"] = u16(r0["sp"] - 2)
        v = self.old(0, r0)
        if self.ops[0][0] == "wreg" and g(self.inp, self.ops[0][1]) % 12 == 8:
            v = exp["sp"]
        base = phys(r0["ss"], exp["sp"])
        em[base] = v & 0xFF
        em[(base + 1) % MB] = v >> 8
        return self.finish(line, exp, em)

    def s_pop(self):
        t = self.text(0)
        r0 = dict(self.regs)
        base = phys(r0["ss"], r0["sp"])
        self.mem[base] = g(self.inp, "in_s0") & 0xFF
        self.mem[(base + 1) % MB] = g(self.inp, "in_s1") & 0xFF
        v = self.mem[base] | (self.mem[(base + 1) % MB] << 8)
        exp, em = dict(r0), {}
        exp["sp"] = u16(r0["sp"] + 2)
        self.write(0, v, exp, em)
        return self.finish(f"pop {t}", exp, em)

    def s_jcond(self):
        mn = self.rp["mn"]
        self.labels.append(("@tgt", 77))
        r0 = dict(self.regs)
        exp = dict(r0)
        if mn.startswith("loop"):
            exp["cx"] = u16(r0["cx"] - 1)
        want = COND(mn, r0["flag"], exp["cx"])
        return self.finish(f"{mn} tgt", exp, {}, "JMP(77)" if want else "NEXT")

    # ---- addressing shapes: the operand text is rebuilt from the registers / displacement of the derivation
    def _operand(self):
        regs = self.rp.get("regs", [])
        disp = [g(self.inp, v) for v in self.rp.get("disp", [])]
        parts = list(regs)
        r0 = self.regs
        ea = sum(r0[x] for x in regs)
        for d in disp:
            ea += d
            parts.append(str(d if d < 0 or not regs else d & 0xFFFF if d >= 0 else d))
        if not regs and disp:
            parts = [str(disp[0] & 0xFFFF)]
        ea &= 0xFFFF
        if self.rp.get("seg"):
            sr = WORD_NAMES[g(self.inp, "in_sr") % 12]
            segv = r0[sr]
            text = f"{sr}:[{','.join(parts)}]"
            if sr not in ("es", "ds", "ss", "cs"):
                return None, None, None
        else:
            segv = r0["ss"] if "bp" in regs else r0["ds"]
            text = f"[{','.join(parts)}]"
        return text, segv, ea

    def s_addr(self):
        text, segv, ea = self._operand()
        if text is None:
            return None
        a = phys(segv, ea)
        self.mem[a] = 0
        r0 = dict(self.regs)
        return self.finish(f"mov byte {text},171", dict(r0), {a: 171})

    def s_lea(self):
        text, segv, ea = self._operand()
        if text is None:
            return None
        k = g(self.inp, "in_k") % 12
        if k in (4, 5, 6, 7):
            k = 0          # the production takes a general word register
        r0 = dict(self.regs)
        exp = dict(r0)
        exp[WORD_NAMES[k]] = ea
        return self.finish(f"lea {WORD_NAMES[k]},word {text}", exp, {})

    def s_lea_label(self):
        k = g(self.inp, "in_k") % 12
        if k in (4, 5, 6, 7):
            k = 0          # the production takes a general word register
        off = g(self.inp, "in_off") & 0xFFFF
        self.labels = [("opnd", off)]
        exp = dict(self.regs)
        exp[WORD_NAMES[k]] = off
        return self.finish(f"lea {WORD_NAMES[k]},word opnd", exp, {})

    def s_control(self):
        mn = self.rp["mn"]
        r0 = dict(self.regs)
        exp = dict(r0)
        f = r0["flag"]
        exp["flag"] = {"stc": f | 1, "clc": f & ~1, "cmc": f ^ 1, "std": f | 0x400, "cld": f & ~0x400, "sti": f | 0x200,
                       "cli": f & ~0x200, "hlt": f}[mn] & 0xFFFF
        return self.finish(mn, exp, {}, "HALT" if mn == "hlt" else "NEXT")

    def s_singleton(self):
        mn = self.rp["mn"]
        r0 = dict(self.regs)
        exp, em = dict(r0), {}
        if mn == "lahf":
            set8(exp, 1, r0["flag"] & 0xFF)
        elif mn == "sahf":
            exp["flag"] = (r0["flag"] & 0xFF00) | (r0["ax"] >> 8)
        elif mn == "pushf":
            exp["sp"] = u16(r0["sp"] - 2)
            b = phys(r0["ss"], exp["sp"])
            em[b] = r0["flag"] & 0xFF
            em[(b + 1) % MB] = r0["flag"] >> 8
        elif mn == "popf":
            b = phys(r0["ss"], r0["sp"])
            self.mem[b] = g(self.inp, "in_s0") & 0xFF
            self.mem[(b + 1) % MB] = g(self.inp, "in_s1") & 0xFF
            exp["flag"] = self.mem[b] | (self.mem[(b + 1) % MB] << 8)
            exp["sp"] = u16(r0["sp"] + 2)
        elif mn == "xlat":
            a = phys(r0["ds"], u16(r0["bx"] + (r0["ax"] & 0xFF)))
            self.mem[a] = g(self.inp, "in_s0") & 0xFF
            set8(exp, 0, self.mem[a])
        else:
            return None
        return self.finish(mn, exp, em)

    def _string_effect(self, mn, w, r0):
        """reference effect of one string instruction on (regs, mem writes); memory cells come from self.mem"""
        size = 1 if w == "byte" else 2
        down = r0["flag"] & 0x400
        stp = lambda x: u16(x - size) if down else u16(x + size)
        src, dst = phys(r0["ds"], r0["si"]), phys(r0["es"], r0["di"])
        rd = lambda a: self.mem.get(a, self.fill) | ((self.mem.get((a + 1) % MB, self.fill) << 8) if size == 2 else 0)
        exp, em = dict(r0), {}
        if mn == "movs":
            v = rd(src)
            em[dst] = v & 0xFF
            if size == 2:
                em[(dst + 1) % MB] = v >> 8
            exp["si"], exp["di"] = stp(r0["si"]), stp(r0["di"])
        elif mn == "lods":
            v = rd(src)
            exp["ax"] = v if size == 2 else (r0["ax"] & 0xFF00) | v
            exp["si"] = stp(r0["si"])
        elif mn == "stos":
            em[dst] = r0["ax"] & 0xFF
            if size == 2:
                em[(dst + 1) % MB] = r0["ax"] >> 8
            exp["di"] = stp(r0["di"])
        else:
            a = rd(src) if mn == "cmps" else (r0["ax"] if size == 2 else r0["ax"] & 0xFF)
            fn = "byte_sub" if size == 1 else "word_sub"
            f = ask(self.tool, [f"l1b {fn} {r0['flag']} {a} {rd(dst)}"])[0]["expected"]
            exp["flag"] = f["flag"]
            if mn == "cmps":
                exp["si"] = stp(r0["si"])
            exp["di"] = stp(r0["di"])
        return exp, em

    def _string_cells(self, r0):
        src, dst = phys(r0["ds"], r0["si"]), phys(r0["es"], r0["di"])
        for name, a in (("in_s0", src), ("in_s1", (src + 1) % MB), ("in_d0", dst), ("in_d1", (dst + 1) % MB)):
            if name in self.inp or a not in self.mem:
                self.mem.setdefault(a, g(self.inp, name) & 0xFF)

    def s_string_l1(self):
        r0 = dict(self.regs)
        self._string_cells(r0)
        exp, em = self._string_effect(self.rp["mn"], self.rp["w"], r0)
        return self.finish(f"{self.rp['mn']} {self.rp['w']}", exp, em, "NEXT")

    def s_string(self):
        prefix, mn, w = self.rp.get("prefix", ""), self.rp["mn"], self.rp["w"]
        r0 = dict(self.regs)
        self._string_cells(r0)
        line = (prefix + " " if prefix else "") + f"{mn} {w}"
        if prefix and r0["cx"] == 0:
            return self.finish(line, dict(r0), {}, "NEXT")
        exp, em = self._string_effect(mn, w, r0)
        if not prefix:
            return self.finish(line, exp, em, "NEXT")
        exp["cx"] = u16(r0["cx"] - 1)
        zf = bool(exp["flag"] & 0x40)
        go = True if prefix == "rep" else (zf if prefix == "repz" else not zf)
        return self.finish(line, exp, em, "REPEAT" if go else "NEXT")


def COND(m, f, cx):
    cf, pf, zf, sf, of = f & 1, f & 4, f & 0x40, f & 0x80, f & 0x800
    t = {"jmp": True, "ja": not cf and not zf, "jae": not cf, "jnc": not cf, "jb": bool(cf), "jc": bool(cf),
         "jbe": bool(cf or zf), "je": bool(zf), "jne": not zf, "jg": (not zf) and (bool(sf) == bool(of)),
         "jge": bool(sf) == bool(of), "jl": bool(sf) != bool(of), "jle": bool(zf) or (bool(sf) != bool(of)),
         "jo": bool(of), "jno": not of, "jp": bool(pf), "jnp": not pf, "js": bool(sf), "jns": not sf,
         "jcxz": cx == 0, "loop": cx != 0, "loope": cx != 0 and bool(zf), "loopne": cx != 0 and not zf}
    return t.get(m)


# ------------------------------------------------------------------------- recording

def native(rp: dict, inputs: dict, tool: str):
    k = rp.get("kind")
    fl = g(inputs, "in_flag")
    if k == "l1_binary":
        return ask(tool, [f"l1b {rp['fn']} {fl} {g(inputs, 'in_op1')} {g(inputs, 'in_op2')}"])[0]
    if k == "l1_unary":
        return ask(tool, [f"l1u {rp['fn']} {fl} {g(inputs, 'in_ax')} {g(inputs, 'in_dx')} {g(inputs, 'in_op1')}"])[0]
    if k == "l1_nullary":
        return ask(tool, [f"l1n {rp['fn']} {fl} {g(inputs, 'in_ax')} {g(inputs, 'in_dx')}"])[0]
    if k == "l3":
        # the verifier's counterexample leaves every memory cell it does not name arbitrary: try the all-zero memory first, then
        # two other backgrounds (a read at a WRONG address shows only when that cell differs from the right one)
        first = None
        for fill in (0, 0xA5, 0x5A):
            r = L3(rp, inputs, tool, fill).go()
            if r is None:
                return first
            if fill:
                r["memory_background"] = f"every memory cell the counterexample does not name holds {fill:#x} (free in the verifier's model)"
            if first is None:
                first = r
            if r.get("confirmed"):
                return r
        return first
    return None


def record(pid, unit, clause, trace, cex, hres, repo_copy):
    d = os.path.join(os.environ.get("VERIF_REPLAY_DIR", os.path.join(VERIF, "replays")), pid)
    os.makedirs(d, exist_ok=True)
    fn = re.sub(r"[^A-Za-z0-9_.-]", "_", f"{unit.name}__{clause}")[:150] + ".json"
    path = os.path.join(d, fn)
    inputs = dict(trace.get("inputs", {}))
    if trace.get("probe"):
        inputs["_probe"] = trace["probe"]
    doc = {
        "property": pid, "obligation": f"{unit.name}/{clause}", "unit": unit.name, "clause": clause,
        "target": unit.target, "kind": unit.kind, "class": unit.klass, "verifier": "kani 0.68 / cbmc 6.11",
        "verifier_failed_checks": hres.failed_checks[:8], "cbmc_property": trace.get("property"),
        "inputs": inputs, "recipe": unit.replay, "cbmc_trace_tail": trace.get("cbmc_tail", "")[-800:],
        "trace_error": cex.get("error") or trace.get("error"),
    }
    confirmed = False
    try:
        if inputs or unit.replay.get("kind", "").startswith("l1"):
            tool = build_tool(repo_copy)
            r = native(unit.replay, inputs, tool)
            doc["native"] = r
            if r is not None:
                confirmed = bool(r.get("mismatch")) or "panic" in r
        else:
            doc["native"] = None
    except Exception as e:  # replay is best effort; the violation stands on the verifier's refutation
        doc["native_error"] = str(e)[:500]
    doc["confirmed"] = confirmed
    if not confirmed:
        doc["note"] = "no-failing-input-found: the verifier refuted the obligation; its output is attached"
    with open(path, "w") as f:
        json.dump(doc, f, indent=1)
    return {"path": path, "confirmed": confirmed}


def replay_cmd(path: str) -> int:
    doc = json.load(open(path))
    root = scratch.make_copy("replay")
    try:
        tool = build_tool(os.path.join(root, "repo"))
        if doc.get("recipe", {}).get("kind") == "asm":
            # emitted-text obligation: the recorded source line through the real assembler, compared with the recorded expectation
            import text_replay
            obs = ask(tool, ["asm " + doc["recipe"]["source"].replace("\n", "\\n")])[0]
            exp = doc["replay"]["expected_tokens"]
            lines = (obs.get(doc["recipe"].get("list", "code")) or []) if isinstance(obs, dict) else []
            got = text_replay.TOK.findall(lines[-1]) if lines else []
            r = {"source": doc["recipe"]["source"], "observed": obs, "emitted_tokens": got, "expected_tokens": exp,
                 "mismatch": [] if got == exp else [f"emitted tokens {got} expected {exp}"]}
        else:
            r = native(doc["recipe"], doc["inputs"], tool)
        print(json.dumps(r, indent=1))
        if r is None:
            print("no native recipe for this obligation; verifier output:", json.dumps(doc.get("verifier_failed_checks"))[:1500])
            return 2
        bad = bool(r.get("mismatch")) or "panic" in r
        print("REPRODUCED" if bad else "NOT-REPRODUCED (the current tree behaves as the contract requires on this input)")
        return 1 if bad else 0
    finally:
        scratch.remove_copy(root)
