"""Parse a LALRPOP 0.19 generated parser: production table + action signatures.

LALRPOP documents every production in the generated file as
    // nonterminal = sym, sym, ... => ActionFn(N);
directly above the reduce code that calls `super::__actionN::<>(grammar params, __sym0, ...)`.
Every `__actionN` is a free function at the top level of the generated file whose
parameters are the grammar parameters, `input`, and one `(usize, T, usize)` triple per
symbol.  Contracts are keyed by production signature (nonterminal + symbol list),
never by N: numbers shift whenever the grammar is edited.
"""
import re
from dataclasses import dataclass, field
from typing import List, Dict, Optional


@dataclass
class Action:
    n: int
    params: List[tuple]          # (pattern/name, type) for every parameter
    ret: str
    body: str
    start: int                   # byte offset of 'fn __actionN' in file
    end: int                     # offset one past closing brace

    @property
    def sym_types(self):
        """types T of the `(usize, T, usize)` symbol triples (grammar params and `input` skipped)"""
        out = []
        for name, ty in self.params:
            m = re.fullmatch(r"\(\s*usize\s*,\s*(.*)\s*,\s*usize\s*\)", ty, re.S)
            if m:
                out.append(m.group(1).strip())
        return out

    @property
    def grammar_params(self):
        out = []
        for name, ty in self.params:
            if re.fullmatch(r"\(\s*usize\s*,\s*(.*)\s*,\s*usize\s*\)", ty, re.S):
                continue
            if ty.startswith("&usize") or name.startswith("__lookbehind") or name.startswith("__lookahead"):
                continue
            out.append((name, ty))
        return out


@dataclass
class Production:
    nt: str
    syms: List[str]
    action: int                  # ActionFn(N) named in the comment (the function the reducer calls)
    user_action: Optional[int] = None   # the action that holds the user's block

    @property
    def sig(self):
        return self.nt + " = " + ", ".join(self.syms)


def split_syms(s: str) -> List[str]:
    """split 'a, ",", r#"[0-9]+"#, b' at top-level commas"""
    out, cur, i = [], "", 0
    s = s.strip()
    while i < len(s):
        c = s[i]
        if s.startswith('r#"', i):
            j = s.index('"#', i + 3) + 2
            cur += s[i:j]
            i = j
            continue
        if c == '"':
            j = i + 1
            while s[j] != '"':
                if s[j] == "\\":
                    j += 1
                j += 1
            cur += s[i:j + 1]
            i = j + 1
            continue
        if c == ",":
            out.append(cur.strip())
            cur = ""
            i += 1
            continue
        cur += c
        i += 1
    if cur.strip():
        out.append(cur.strip())
    return out


def match_brace(text: str, i: int) -> int:
    """text[i] == '{' -> index one past the matching '}' (string/char/comment aware enough for rustfmt-free generated code)"""
    assert text[i] == "{"
    depth = 0
    n = len(text)
    while i < n:
        c = text[i]
        if c == "/" and text.startswith("//", i):
            i = text.index("\n", i)
            continue
        if c == "/" and text.startswith("/*", i):
            i = text.index("*/", i) + 2
            continue
        if c == '"':
            i += 1
            while text[i] != '"':
                if text[i] == "\\":
                    i += 1
                i += 1
            i += 1
            continue
        if c == "r" and re.match(r'r#+"', text[i:i + 6]) and (i == 0 or not (text[i - 1].isalnum() or text[i - 1] == "_")):
            m = re.match(r'r(#+)"', text[i:])
            close = '"' + m.group(1)
            i = text.index(close, i + len(m.group(0))) + len(close)
            continue
        if c == "'":
            # char literal or lifetime
            m = re.match(r"'(\\.|[^\\'])'", text[i:])
            if m:
                i += len(m.group(0))
                continue
        if c == "{":
            depth += 1
        elif c == "}":
            depth -= 1
            if depth == 0:
                return i + 1
        i += 1
    raise ValueError("unbalanced braces")


def split_params(s: str) -> List[tuple]:
    """split a parameter list at top-level commas into (pattern, type)"""
    out, cur, depth = [], "", 0
    for c in s:
        if c in "(<[":
            depth += 1
        elif c in ")>]":
            depth -= 1
        if c == "," and depth == 0:
            if cur.strip():
                out.append(cur.strip())
            cur = ""
        else:
            cur += c
    if cur.strip():
        out.append(cur.strip())
    res = []
    for p in out:
        # pattern : type  -- the pattern may be a tuple pattern containing ':'? no, only idents/_ inside
        d, k = 0, None
        for idx, c in enumerate(p):
            if c in "(<[":
                d += 1
            elif c in ")>]":
                d -= 1
            elif c == ":" and d == 0:
                k = idx
                break
        res.append((p[:k].strip(), p[k + 1:].strip()))
    return res


ACTION_RE = re.compile(r"^(?:pub\(crate\) )?fn __action(\d+)<", re.M)


def parse_actions(text: str) -> Dict[int, Action]:
    acts = {}
    for m in ACTION_RE.finditer(text):
        n = int(m.group(1))
        # parameter list: first '(' after the generics '>('
        gt = text.index(">(", m.end() - 1)
        lp = gt + 1
        # find matching ')'
        depth, i = 0, lp
        while True:
            c = text[i]
            if c == "(":
                depth += 1
            elif c == ")":
                depth -= 1
                if depth == 0:
                    break
            i += 1
        params = split_params(text[lp + 1:i])
        arrow = text.index("->", i)
        lb = text.index("{", arrow)
        ret = text[arrow + 2:lb].strip()
        end = match_brace(text, lb)
        acts[n] = Action(n, params, ret, text[lb:end], m.start(), end)
    return acts


PROD_RE = re.compile(r"^\s*// (.+?) = (.*?) => ActionFn\((\d+)\);\s*$", re.M)


def parse_productions(text: str, actions: Dict[int, Action]) -> List[Production]:
    seen = {}
    for m in PROD_RE.finditer(text):
        nt, rhs, n = m.group(1).strip(), m.group(2), int(m.group(3))
        key = (nt, rhs, n)
        if key in seen:
            continue
        p = Production(nt, split_syms(rhs), n)
        p.user_action = resolve_user_action(n, actions)
        seen[key] = p
    return list(seen.values())


def resolve_user_action(n: int, actions: Dict[int, Action], depth=0) -> int:
    """Follow wrapper actions (which only evaluate @L/@R look-around and forward) to the action holding the user block."""
    a = actions.get(n)
    if a is None or depth > 6:
        return n
    calls = [int(x) for x in re.findall(r"__action(\d+)\(", a.body)]
    if not calls:
        return n
    # wrappers' parameters are all named __k; user actions have tuple patterns
    if not all(name.startswith("__") or name in ("input",) or not name.startswith("(") for name, _ in a.params):
        return n
    if any(name.startswith("(") for name, _ in a.params):
        return n
    # a wrapper ends with a tail call to the wrapped action
    return resolve_user_action(calls[-1], actions, depth + 1)


def load(path: str):
    text = open(path).read()
    acts = parse_actions(text)
    prods = parse_productions(text, acts)
    return text, acts, prods


if __name__ == "__main__":
    import sys
    text, acts, prods = load(sys.argv[1])
    print(len(acts), "actions", len(prods), "productions")
    for p in prods:
        a = acts[p.action]
        print(f"{p.sig}  => {p.action} (user {p.user_action})  types={a.sym_types} ret={a.ret}")
