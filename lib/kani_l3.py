"""L2/L3: one Kani harness per interpreter production, generated from the production
table of the CURRENT generated parser.  Contracts are keyed by production signature.

Harness classes
  P  memory-fenced VM (1-byte allocation behind Box<[u8; MB]>): any access to vm.mem is a
     CBMC pointer-check failure, so "memory neither read nor written" is proved as a by-product
  M  fully nondeterministic 1 MB heap, --arrays-uf-always, frame via a symbolic cell in_p

Every harness: 14 named register inputs (in_flag, in_ax, ...), named operand inputs, the real
`__actionN` of the production called exactly as the generated reducer calls it, then named
clause assertions (description = clause name; obligation id = harness/clause) and a cover.
"""
import re
from dataclasses import dataclass, field
from typing import List, Dict, Optional, Tuple

from prodtable import Production, Action
from kani_l1 import decl_regs, arch_expr, V, S, INPUT_REGS

MBx = "(crate::vm::MB as usize)"

WORD_REG_IX = {"ax": 0, "bx": 1, "cx": 2, "dx": 3, "ss": 4, "cs": 5, "ds": 6, "es": 7, "sp": 8, "bp": 9, "si": 10, "di": 11}
BYTE_REG_IX = {"al": 0, "ah": 1, "bl": 2, "bh": 3, "cl": 4, "ch": 5, "dl": 6, "dh": 7}
WORD_REG_VARIANT = {v: k.upper() for k, v in WORD_REG_IX.items()}
BYTE_REG_VARIANT = {v: k.upper() for k, v in BYTE_REG_IX.items()}


@dataclass
class H:
    name: str
    sig: str
    props: List[str]
    klass: str
    body: str
    clauses: List[str]
    stubs: List[Tuple[str, str]] = field(default_factory=list)
    unwind: int = 0
    replay: dict = field(default_factory=dict)
    group: str = ""


def slug(sig: str) -> str:
    s = sig
    rep = {'","': "comma", '"["': "lb", '"]"': "rb", '":"': "colon", '"->"': "arrow"}
    for k, v in rep.items():
        s = s.replace(k, v)
    s = re.sub(r'r#"(.*?)"#', lambda m: "re" + re.sub(r"\W", "", m.group(1).replace("-", "neg")), s)
    s = s.replace(" = ", "__")
    s = re.sub(r"[^A-Za-z0-9_]+", "_", s).strip("_")
    s = re.sub(r"_+", "_", s).replace("_ _", "__")
    return s


def is_term(sym: str) -> bool:
    return sym.startswith('"') or sym.startswith("r#")


def term_text(sym: str) -> str:
    return sym[1:-1] if sym.startswith('"') else sym


def A(name: str, expr: str) -> str:
    return f'        assert!(/*[{name}*/ {expr} /*]*/, "{name}");\n'


# --------------------------------------------------------------------------- operands

class Op:
    """an instruction operand as the production sees it"""

    def __init__(self, kind: str, var: str, nsyms: int, ty: str = ""):
        self.kind = kind      # breg wreg bmem wmem imm8 imm16 cl cs
        self.var = var
        self.nsyms = nsyms
        self.ty = ty

    @property
    def width(self):
        return 8 if self.kind in ("breg", "bmem", "imm8", "cl") else 16

    @property
    def is_mem(self):
        return self.kind in ("bmem", "wmem")

    def decl(self) -> str:
        v = self.var
        if self.kind == "breg":
            return f"        let {v}: u8 = kani::any();\n        kani::assume({v} < 8);\n"
        if self.kind == "wreg":
            return f"        let {v}: u8 = kani::any();\n        kani::assume({v} < 12);\n"
        if self.kind in ("imm8", "imm16"):
            return f"        let {v}: {self.ty} = kani::any();\n"
        return ""

    def args(self, label_form: bool) -> List[str]:
        v = self.var
        if self.kind == "breg":
            return [f"(0, {V}::byte_reg_of({v}), 0)"]
        if self.kind == "wreg":
            return [f"(0, {V}::word_reg_of({v}), 0)"]
        if self.kind in ("bmem", "wmem"):
            return ["(0, in_m, 0)"] if label_form else ['(0, "", 0)', "(0, in_m, 0)"]
        if self.kind in ("imm8", "imm16"):
            return [f"(0, {v}, 0)"]
        if self.kind == "cl":
            return ["(0, crate::util::data_util::ByteReg::CL, 0)"]
        if self.kind == "cs":
            return ['(0, "", 0)']
        raise ValueError(self.kind)

    def old(self) -> str:
        v = self.var
        if self.kind == "breg":
            return f"{V}::spec_get8(&old, {v})"
        if self.kind == "wreg":
            return f"{V}::spec_get16(&old, {v})"
        if self.kind == "bmem":
            return "in_m0"
        if self.kind == "wmem":
            return "((in_m0 as u16) | ((in_m1 as u16) << 8))"
        if self.kind == "imm8":
            return f"({v} as u8)"
        if self.kind == "imm16":
            return f"({v} as u16)"
        if self.kind == "cl":
            return f"{V}::spec_get8(&old, 4)"
        if self.kind == "cs":
            return "old.cs"
        raise ValueError(self.kind)

    def write(self, val: str, writes: List[Tuple[str, str]]) -> str:
        """spec statement(s): destination := val (val is an expression of the operand's width)"""
        v = self.var
        if self.kind == "breg":
            return f"        {V}::spec_set8(&mut exp, {v}, {val});\n"
        if self.kind == "wreg":
            return f"        {V}::spec_set16(&mut exp, {v}, {val});\n"
        if self.kind == "bmem":
            writes.append(("in_m", f"({val})"))
            return ""
        if self.kind == "wmem":
            writes.append(("in_m", f"(({val}) as u8)"))
            writes.append((f"{S}::next(in_m)", f"((({val}) >> 8) as u8)"))
            return ""
        raise ValueError("not writable: " + self.kind)


def parse_operands(syms: List[str], types: List[str], first: int) -> Optional[Tuple[List[Op], List[bool]]]:
    """syms[first:] -> operands; returns (ops, label_form flags) or None if a symbol is unknown"""
    ops, lab = [], []
    i = first
    n = 0
    while i < len(syms):
        s = syms[i]
        n += 1
        if s == '","':
            i += 1
            n -= 1
            continue
        if s == "byte_reg":
            ops.append(Op("breg", f"in_r{n}", 1)); lab.append(False); i += 1
        elif s in ("word_reg", "seg_reg", "pop_reg"):
            ops.append(Op("wreg", f"in_r{n}", 1, "seg" if s == "seg_reg" else "")); lab.append(False); i += 1
        elif s == '"byte"' and i + 1 < len(syms) and syms[i + 1] == "memory_addr":
            ops.append(Op("bmem", "in_m", 2)); lab.append(False); i += 2
        elif s == '"word"' and i + 1 < len(syms) and syms[i + 1] == "memory_addr":
            ops.append(Op("wmem", "in_m", 2)); lab.append(False); i += 2
        elif s == "byte_label":
            ops.append(Op("bmem", "in_m", 1)); lab.append(True); i += 1
        elif s == "word_label":
            ops.append(Op("wmem", "in_m", 1)); lab.append(True); i += 1
        elif s in ("s_byte_num", "u_byte_num"):
            ops.append(Op("imm8", f"in_n{n}", 1, types[i])); lab.append(False); i += 1
        elif s in ("s_word_num", "u_word_num"):
            ops.append(Op("imm16", f"in_n{n}", 1, types[i])); lab.append(False); i += 1
        elif s == "reg_cl":
            ops.append(Op("cl", "", 1)); lab.append(False); i += 1
        elif s == '"cs"':
            ops.append(Op("cs", "", 1)); lab.append(False); i += 1
        else:
            return None
    return ops, lab


# --------------------------------------------------------------------------- skeleton

def prelude(klass: str, mem_ops: bool, extra_decl: str = "", stack_addr: str = None) -> str:
    b = decl_regs() + "\n"
    mk = "heap_vm_with" if klass == "M" else "fenced_vm_with"
    b += f"        let mut vm = {V}::{mk}({arch_expr()});\n"
    b += f"        let ctx = {V}::forged_context();\n"
    b += extra_decl
    if klass == "M":
        if mem_ops:
            b += f"        let in_m: usize = kani::any();\n        kani::assume(in_m < {MBx});\n"
            b += f"        let in_m0: u8 = vm.mem[in_m];\n        let in_m1: u8 = vm.mem[{S}::next(in_m)];\n"
        if stack_addr:
            b += f"        let s_addr: usize = {stack_addr};\n"
            b += f"        let in_s0: u8 = vm.mem[s_addr];\n        let in_s1: u8 = vm.mem[{S}::next(s_addr)];\n"
        b += f"        let in_p: usize = kani::any();\n        kani::assume(in_p < {MBx});\n        let in_p0: u8 = vm.mem[in_p];\n"
    b += f"        let old = {V}::regs(&vm);\n        /*@inputs-done*/\n"
    return b


def call(action: int, args: List[str], ret: str = "ret") -> str:
    return f"        let {ret} = __action{action}(0, &mut vm, ctx, \"\", {', '.join(args)});\n" if args else \
        f"        let {ret} = __action{action}(0, &mut vm, ctx, \"\");\n"


def epilogue(klass: str, writes: List[Tuple[str, str]], name: str) -> Tuple[str, List[str]]:
    b = f"        {V}::check_regs(&vm, &exp, /*[regmask*/ 0 /*]*/);\n"
    clauses = ["reg." + r for r in INPUT_REGS]
    if klass == "M":
        if writes:
            exp_p = "in_p0"
            for a, v in writes:
                exp_p = f"if in_p == {a} {{ {v} }} else {{ {exp_p} }}"
            inws = " || ".join(f"in_p == {a}" for a, _ in writes)
            b += f"        let exp_p: u8 = {exp_p};\n"
            b += f"        if {inws} {{\n    " + A("mem.dest", "vm.mem[in_p] == exp_p") + "        } else {\n    " + A("mem.frame", "vm.mem[in_p] == in_p0") + "        }\n"
            clauses += ["mem.dest", "mem.frame"]
        else:
            b += A("mem.frame", "vm.mem[in_p] == in_p0")
            clauses += ["mem.frame"]
    b += f"        {V}::forget_vm(vm);\n"
    return b, clauses


def klass_of(ops: List[Op]) -> str:
    return "M" if any(o.is_mem for o in ops) else "P"


def opargs(ops, lab):
    out = []
    first = True
    for o, l in zip(ops, lab):
        if not first:
            out.append('(0, "", 0)')  # the "," terminal
        out += o.args(l)
        first = False
    return out


# --------------------------------------------------------------------------- generators

class Gen:
    def __init__(self, prods: List[Production], actions: Dict[int, Action]):
        self.prods = prods
        self.actions = actions
        self.by_nt: Dict[str, List[Production]] = {}
        for p in prods:
            self.by_nt.setdefault(p.nt, []).append(p)
        self.out: List[H] = []
        self.skipped: List[str] = []

    def types(self, p: Production) -> List[str]:
        return self.actions[p.action].sym_types

    def add(self, p: Production, props, klass, body, clauses, ops=None, lab=None, **kw):
        if ops is not None:
            kw.setdefault("replay", {})["ops"] = [[o.kind, o.var, o.ty] for o in ops]
            kw["replay"]["lab"] = list(lab)
            kw["replay"]["syms"] = p.syms
        h = H("h_" + slug(p.sig), p.sig, props, klass, body + f'        kani::cover!(true, "reachable");\n', clauses, **kw)
        h.group = p.nt
        self.out.append(h)
        return h

    # ---- binary arithmetic / logical ------------------------------------------------
    def binary(self, p: Production, props):
        types = self.types(p)
        byte = "Byte" in types[0]
        pr = parse_operands(p.syms, types, 1)
        if pr is None or len(pr[0]) != 2:
            return self.skipped.append(p.sig)
        (dst, src), lab = pr
        klass = klass_of([dst, src])
        probe = f"{V}::probe_bb as crate::util::interpreter_util::ByteOpBinary" if byte else \
            f"{V}::probe_ww as crate::util::interpreter_util::WordOpBinary"
        b = prelude(klass, True, dst.decl() + src.decl())
        b += f"        {V}::probe_arm();\n"
        b += call(p.action, [f"(0, {probe}, 0)"] + opargs([dst, src], lab), "_ret")
        b += f"        let (p_calls, p_a, p_b, p_ret, p_flag, p_seen) = unsafe {{ ({V}::P_CALLS, {V}::P_A, {V}::P_B, {V}::P_RET, {V}::P_FLAG, {V}::P_SEEN) }};\n"
        b += A("op.called_once", "p_calls == 1")
        b += A("op.dest_operand", f"p_a == ({dst.old()}) as u16")
        b += A("op.src_operand", f"p_b == ({src.old()}) as u16")
        b += A("op.sees_unmodified_registers", "p_seen == Some(old)")
        b += "        let mut exp = old;\n        exp.flag = p_flag;\n"
        writes = []
        cast = "p_ret as u8" if byte else "p_ret"
        b += dst.write(cast, writes)
        e, cl = epilogue(klass, writes, "")
        self.add(p, props, klass, b + e,
                 ["op.called_once", "op.dest_operand", "op.src_operand", "op.sees_unmodified_registers"] + cl,
                 ops=[dst, src], lab=lab, replay={"kind": "l3", "shape": "binary", "byte": byte, "nt": p.nt})

    # ---- unary arithmetic ---------------------------------------------------------------
    def unary(self, p: Production, props):
        types = self.types(p)
        byte = "Byte" in types[0]
        pr = parse_operands(p.syms, types, 1)
        if pr is None or len(pr[0]) != 1:
            return self.skipped.append(p.sig)
        (opnd,), lab = pr
        klass = klass_of([opnd])
        probe = f"{V}::probe_ub as crate::util::interpreter_util::ByteOpUnary" if byte else \
            f"{V}::probe_uw as crate::util::interpreter_util::WordOpUnary"
        b = prelude(klass, True, opnd.decl())
        b += f"        {V}::probe_arm();\n"
        b += call(p.action, [f"(0, {probe}, 0)"] + opargs([opnd], lab))
        b += f"        let (p_calls, p_a, p_val, p_flag, p_ax, p_dx, p_err, p_seen) = unsafe {{ ({V}::P_CALLS, {V}::P_A, {V}::P_VAL, {V}::P_FLAG, {V}::P_AX, {V}::P_DX, {V}::P_ERR, {V}::P_SEEN) }};\n"
        b += A("op.called_once", "p_calls == 1")
        b += A("op.operand", f"p_a == ({opnd.old()}) as u16")
        b += A("op.sees_unmodified_registers", "p_seen == Some(old)")
        b += "        let mut exp = old;\n"
        b += "        if p_err {\n    " + A("divide_error.becomes_INT0", "ret == State::INT(0)") + "        } else {\n    " + A("ok.becomes_NEXT", "ret == State::NEXT")
        b += "            exp.flag = p_flag;\n            exp.ax = p_ax;\n            exp.dx = p_dx;\n"
        writes = []
        v = "p_val as u8" if byte else "p_val"
        mask = "0xFF" if byte else "0xFFFF"
        if opnd.is_mem:
            w = opnd.write(v, writes)
            b += "        }\n"
            # on Err nothing may be written: handled by making the expected written value the old one
            writes[:] = [(a, f"if p_err {{ {'in_m0' if i == 0 else 'in_m1'} }} else {{ {val} }}") for i, (a, val) in enumerate(writes)]
        else:
            # the operand is written back only when the operation changed it: MUL/DIV leave *val
            # alone and deliver their result in AX/DX, which a blind write-back would clobber
            b += f"            if (p_val & {mask}) != (p_a & {mask}) {{\n    " + opnd.write(v, writes) + "            }\n        }\n"
        e, cl = epilogue(klass, writes, "")
        self.add(p, props, klass, b + e,
                 ["op.called_once", "op.operand", "op.sees_unmodified_registers", "divide_error.becomes_INT0", "ok.becomes_NEXT"] + cl,
                 ops=[opnd], lab=lab, replay={"kind": "l3", "shape": "unary", "byte": byte})

    # ---- not ----------------------------------------------------------------------------------
    def not_(self, p: Production, props):
        types = self.types(p)
        pr = parse_operands(p.syms, types, 1)
        if pr is None or len(pr[0]) != 1:
            return self.skipped.append(p.sig)
        (opnd,), lab = pr
        klass = klass_of([opnd])
        b = prelude(klass, True, opnd.decl())
        b += call(p.action, ['(0, "", 0)'] + opargs([opnd], lab), "_ret")
        b += "        let mut exp = old;\n"
        writes = []
        b += opnd.write(f"!({opnd.old()})", writes)
        e, cl = epilogue(klass, writes, "")
        self.add(p, props, klass, b + e, cl, ops=[opnd], lab=lab, replay={"kind": "l3", "shape": "not"})

    # ---- shift / rotate --------------------------------------------------------------------
    def shift(self, p: Production, props):
        types = self.types(p)
        byte = "Byte" in types[0]
        pr = parse_operands(p.syms, types, 1)
        if pr is None or len(pr[0]) != 2:
            return self.skipped.append(p.sig)
        (dst, cnt), lab = pr
        klass = klass_of([dst])
        probe = f"{V}::probe_bb as crate::util::interpreter_util::ByteOpBinary" if byte else \
            f"{V}::probe_ww as crate::util::interpreter_util::WordOpBinary"
        b = prelude(klass, True, dst.decl() + cnt.decl())
        b += f"        {V}::probe_arm();\n"
        b += call(p.action, [f"(0, {probe}, 0)"] + opargs([dst, cnt], lab), "_ret")
        b += f"        let (p_calls, p_a, p_b, p_ret, p_flag, p_seen) = unsafe {{ ({V}::P_CALLS, {V}::P_A, {V}::P_B, {V}::P_RET, {V}::P_FLAG, {V}::P_SEEN) }};\n"
        b += A("op.called_once", "p_calls == 1")
        b += A("op.dest_operand", f"p_a == ({dst.old()}) as u16")
        b += A("op.count_operand", f"p_b == ({cnt.old()}) as u16")
        b += A("op.sees_unmodified_registers", "p_seen == Some(old)")
        b += "        let mut exp = old;\n        exp.flag = p_flag;\n"
        writes = []
        b += dst.write("p_ret as u8" if byte else "p_ret", writes)
        e, cl = epilogue(klass, writes, "")
        self.add(p, props, klass, b + e,
                 ["op.called_once", "op.dest_operand", "op.count_operand", "op.sees_unmodified_registers"] + cl,
                 ops=[dst, cnt], lab=lab, replay={"kind": "l3", "shape": "shift", "byte": byte})

    # ---- mov ----------------------------------------------------------------------------------
    def mov(self, p: Production, props):
        types = self.types(p)
        pr = parse_operands(p.syms, types, 1)
        if pr is None or len(pr[0]) != 2:
            return self.skipped.append(p.sig)
        (dst, src), lab = pr
        klass = klass_of([dst, src])
        b = prelude(klass, True, dst.decl() + src.decl())
        b += call(p.action, ['(0, "", 0)'] + opargs([dst, src], lab), "_ret")
        b += "        let mut exp = old;\n"
        writes = []
        b += dst.write(src.old(), writes)
        e, cl = epilogue(klass, writes, "")
        self.add(p, props, klass, b + e, cl, ops=[dst, src], lab=lab, replay={"kind": "l3", "shape": "mov"})

    def xchg(self, p: Production, props):
        types = self.types(p)
        pr = parse_operands(p.syms, types, 1)
        if pr is None or len(pr[0]) != 2:
            return self.skipped.append(p.sig)
        (a, c), lab = pr
        klass = klass_of([a, c])
        b = prelude(klass, True, a.decl() + c.decl())
        b += call(p.action, ['(0, "", 0)'] + opargs([a, c], lab), "_ret")
        b += f"        let mut exp = old;\n        let va = {a.old()};\n        let vc = {c.old()};\n"
        writes = []
        b += a.write("vc", writes)
        b += c.write("va", writes)
        e, cl = epilogue(klass, writes, "")
        self.add(p, props, klass, b + e, cl, ops=[a, c], lab=lab, replay={"kind": "l3", "shape": "xchg"})

    # ---- push / pop ---------------------------------------------------------------------------
    def push(self, p: Production, props):
        types = self.types(p)
        pr = parse_operands(p.syms, types, 1)
        if pr is None or len(pr[0]) != 1:
            return self.skipped.append(p.sig)
        (src,), lab = pr
        b = prelude("M", src.is_mem, src.decl())
        b += call(p.action, ['(0, "", 0)'] + opargs([src], lab), "_ret")
        b += "        let mut exp = old;\n        exp.sp = old.sp.wrapping_sub(2);\n"
        # 8086: PUSH SP stores the already decremented SP
        if src.kind == "wreg":
            b += f"        let v: u16 = if {src.var} == 8 {{ exp.sp }} else {{ {src.old()} }};\n"
        else:
            b += f"        let v: u16 = {src.old()};\n"
        b += f"        let base = {S}::phys(old.ss, exp.sp);\n"
        writes = [("base", "(v as u8)"), (f"{S}::next(base)", "((v >> 8) as u8)")]
        e, cl = epilogue("M", writes, "")
        self.add(p, props, "M", b + e, cl, ops=[src], lab=lab, replay={"kind": "l3", "shape": "push"})

    def pop(self, p: Production, props):
        types = self.types(p)
        pr = parse_operands(p.syms, types, 1)
        if pr is None or len(pr[0]) != 1:
            return self.skipped.append(p.sig)
        (dst,), lab = pr
        b = prelude("M", dst.is_mem, dst.decl(), stack_addr=f"{S}::phys(in_ss, in_sp)")
        b += call(p.action, ['(0, "", 0)'] + opargs([dst], lab), "_ret")
        b += "        let mut exp = old;\n        let v: u16 = (in_s0 as u16) | ((in_s1 as u16) << 8);\n"
        b += "        exp.sp = old.sp.wrapping_add(2);\n"
        writes = []
        # 8086: SP is incremented first, then the destination is written (POP SP leaves the popped value in SP)
        b += dst.write("v", writes)
        e, cl = epilogue("M", writes, "")
        self.add(p, props, "M", b + e, cl, ops=[dst], lab=lab, replay={"kind": "l3", "shape": "pop"})

    def singleton_dt(self, p: Production, props):
        mn = term_text(p.syms[0])
        writes = []
        stack = None
        klass = "P"
        spec = ""
        if mn == "lahf":
            spec = f"        {V}::spec_set8(&mut exp, 1, old.flag as u8);\n"
        elif mn == "sahf":
            spec = "        exp.flag = (old.flag & 0xFF00) | (old.ax >> 8);\n"
        elif mn == "pushf":
            klass = "M"
            spec = f"        exp.sp = old.sp.wrapping_sub(2);\n        let base = {S}::phys(old.ss, exp.sp);\n"
            writes = [("base", "(old.flag as u8)"), (f"{S}::next(base)", "((old.flag >> 8) as u8)")]
        elif mn == "popf":
            klass = "M"
            stack = f"{S}::phys(in_ss, in_sp)"
            spec = "        exp.flag = (in_s0 as u16) | ((in_s1 as u16) << 8);\n        exp.sp = old.sp.wrapping_add(2);\n"
        elif mn == "xlat":
            klass = "M"
            stack = f"{S}::phys(in_ds, in_bx.wrapping_add(in_ax & 0xFF))"
            spec = f"        {V}::spec_set8(&mut exp, 0, in_s0);\n"
        else:
            return self.skipped.append(p.sig)
        b = prelude(klass, False, "", stack_addr=stack)
        b += call(p.action, ['(0, "", 0)'], "_ret")
        b += "        let mut exp = old;\n" + spec
        e, cl = epilogue(klass, writes, "")
        self.add(p, props, klass, b + e, cl, replay={"kind": "l3", "shape": "singleton", "mn": mn})

    # ---- tables: mnemonic -> function ---------------------------------------------------
    FN_TABLE = {
        "byte_binary_arithmetic": ("byte_{}", "ByteOpBinary", {}),
        "word_binary_arithmetic": ("word_{}", "WordOpBinary", {}),
        "byte_unary_arithmetic": ("byte_{}", "ByteOpUnary", {}),
        "word_unary_arithmetic": ("word_{}", "WordOpUnary", {}),
        "byte_binary_logical": ("byte_{}", "ByteOpBinary", {}),
        "word_binary_logical": ("word_{}", "WordOpBinary", {}),
        "byte_shift_rotate": ("byte_{}", "ByteOpBinary", {"shl": "sal"}),
        "word_shift_rotate": ("word_{}", "WordOpBinary", {"shl": "sal"}),
    }

    def fn_table(self, p: Production, props):
        pat, ty, alias = self.FN_TABLE[p.nt]
        mn = term_text(p.syms[0])
        fn = pat.format(alias.get(mn, mn))
        b = prelude("P", False)
        b += call(p.action, ['(0, "", 0)'])
        b += A("table.mnemonic_selects_function",
               f"ret as usize == ({fn} as crate::util::interpreter_util::{ty}) as usize")
        b += "        let exp = old;\n"
        e, cl = epilogue("P", [], "")
        self.add(p, props, "P", b + e, ["table.mnemonic_selects_function"] + cl,
                 replay={"kind": "table", "mn": mn, "fn": fn})

    def reg_table(self, p: Production, props):
        if not is_term(p.syms[0]):
            # pass-through alternative (byte_reg = reg_cl, pop_reg = word_reg)
            ty = self.types(p)[0]
            b = prelude("P", False)
            if ty == "ByteReg":
                b += f"        let in_k: u8 = kani::any();\n        kani::assume(in_k < 8);\n"
                b += call(p.action, [f"(0, {V}::byte_reg_of(in_k), 0)"])
                b += A("table.pass_through", f"{V}::byte_reg_ix(ret) == in_k")
            else:
                b += f"        let in_k: u8 = kani::any();\n        kani::assume(in_k < 12);\n"
                b += call(p.action, [f"(0, {V}::word_reg_of(in_k), 0)"])
                b += A("table.pass_through", f"{V}::word_reg_ix(ret) == in_k")
            b += "        let exp = old;\n"
            e, cl = epilogue("P", [], "")
            return self.add(p, props, "P", b + e, ["table.pass_through"] + cl, replay={"kind": "table"})
        name = term_text(p.syms[0])
        b = prelude("P", False)
        b += call(p.action, ['(0, "", 0)'])
        if name in BYTE_REG_IX:
            b += A("table.spelling_selects_register", f"{V}::byte_reg_ix(ret) == {BYTE_REG_IX[name]}")
        elif name in WORD_REG_IX:
            b += A("table.spelling_selects_register", f"{V}::word_reg_ix(ret) == {WORD_REG_IX[name]}")
        else:
            return self.skipped.append(p.sig)
        b += "        let exp = old;\n"
        e, cl = epilogue("P", [], "")
        self.add(p, props, "P", b + e, ["table.spelling_selects_register"] + cl, replay={"kind": "table", "reg": name})

    # ---- numbers (casts) ------------------------------------------------------------------
    def number_cast(self, p: Production, props):
        # s_byte_num = u_word_num => n as i8 ; s_word_num = u_word_num => n as i16
        ty = self.types(p)[0]
        ret = self.actions[p.action].ret
        b = prelude("P", False)
        b += f"        let in_n1: {ty} = kani::any();\n"
        b += call(p.action, ["(0, in_n1, 0)"])
        mask = "0xFF" if ret in ("i8", "u8") else "0xFFFF"
        b += A("number.same_bit_pattern", f"(ret as u16) & {mask} == (in_n1 as u16) & {mask}")
        b += "        let exp = old;\n"
        e, cl = epilogue("P", [], "")
        self.add(p, props, "P", b + e, ["number.same_bit_pattern"] + cl, replay={"kind": "table"})

    # ---- conditions ------------------------------------------------------------------------
    def jcond(self, p: Production, props):
        mn = term_text(p.syms[0])
        b = prelude("P", False)
        b += call(p.action, ['(0, "", 0)'])
        b += "        let mut exp = old;\n"
        if mn.startswith("loop"):
            b += "        exp.cx = old.cx.wrapping_sub(1);\n"
        b += f'        let want = {S}::cond("{mn}", old.flag, exp.cx);\n'
        b += A("cond.mnemonic_known", "want.is_some()")
        b += A("cond.taken_iff_intel_predicate", "Some(ret) == want")
        e, cl = epilogue("P", [], "")
        self.add(p, props, "P", b + e, ["cond.mnemonic_known", "cond.taken_iff_intel_predicate"] + cl,
                 replay={"kind": "l3", "shape": "jcond", "mn": mn})

    def control(self, p: Production, props):
        mn = term_text(p.syms[0])
        eff = {"stc": "exp.flag = old.flag | S::CF;", "clc": "exp.flag = old.flag & !S::CF;",
               "cmc": "exp.flag = old.flag ^ S::CF;", "std": "exp.flag = old.flag | S::DF;",
               "cld": "exp.flag = old.flag & !S::DF;", "sti": "exp.flag = old.flag | S::IF;",
               "cli": "exp.flag = old.flag & !S::IF;", "hlt": ""}
        if mn not in eff:
            return self.skipped.append(p.sig)
        b = prelude("P", False)
        b += call(p.action, ['(0, "", 0)'])
        b += "        let mut exp = old;\n        " + eff[mn].replace("S::", S + "::") + "\n        let _ = &mut exp;\n"
        b += A("control.outcome", "ret == State::HALT" if mn == "hlt" else "ret == State::NEXT")
        e, cl = epilogue("P", [], "")
        self.add(p, props, "P", b + e, ["control.outcome"] + cl, replay={"kind": "l3", "shape": "control", "mn": mn})

    # ---- pass-through / constant-state productions -----------------------------------------
    def passthrough(self, p: Production, props, expect: Optional[str]):
        ty = self.types(p)[0]
        b = prelude("P", False)
        if ty == "State":
            b += f"        let in_k: u8 = kani::any();\n        let in_v: usize = kani::any();\n        let in_b: u8 = kani::any();\n"
            b += "        let mk = |k: u8| match k % 6 { 0 => State::HALT, 1 => State::PRINT, 2 => State::JMP(in_v), 3 => State::NEXT, 4 => State::INT(in_b), _ => State::REPEAT };\n"
            b += call(p.action, ["(0, mk(in_k), 0)"])
            b += A("state.passed_through_unchanged", "ret == mk(in_k)")
            cl0 = ["state.passed_through_unchanged"]
        elif ty == "()":
            b += call(p.action, ["(0, (), 0)"])
            b += A("state.outcome", f"ret == {expect}")
            cl0 = ["state.outcome"]
        elif ty == "usize":
            b += "        let in_v: usize = kani::any();\n"
            b += call(p.action, ["(0, in_v, 0)"])
            b += A("value.passed_through_unchanged", "ret == in_v")
            cl0 = ["value.passed_through_unchanged"]
        else:
            return self.skipped.append(p.sig)
        b += "        let exp = old;\n"
        e, cl = epilogue("P", [], "")
        self.add(p, props, "P", b + e, cl0 + cl, replay={"kind": "table"})

    # ---- string: prefix protocol, children stubbed by an identifying body probe -------------
    STRING_FNS = ["movs_byte", "movs_word", "loads_byte", "loads_word", "stos_byte", "stos_word",
                  "cmps_byte", "cmps_word", "scas_byte", "scas_word"]
    STRING_OF = {("movs", "byte"): 0, ("movs", "word"): 1, ("lods", "byte"): 2, ("lods", "word"): 3,
                 ("stos", "byte"): 4, ("stos", "word"): 5, ("cmps", "byte"): 6, ("cmps", "word"): 7,
                 ("scas", "byte"): 8, ("scas", "word"): 9}

    def string(self, p: Production, props):
        """`string = [prefix] string_instructions`: harness = child action then parent action, as the LR
        driver reduces them.  All ten string functions are replaced (kani::stub) by body probes that
        identify themselves, count calls and leave arbitrary SI/DI/AX/FLAGS (the L1 frame contract)."""
        prefix = term_text(p.syms[0]) if is_term(p.syms[0]) else ""
        stubs = [(f"crate::instructions::string::{f}", f"{V}::body_probe_{i}") for i, f in enumerate(self.STRING_FNS)]
        for child in self.by_nt.get("string_instructions", []):
            key = (term_text(child.syms[0]), term_text(child.syms[1]))
            if key not in self.STRING_OF:
                self.skipped.append(child.sig)
                continue
            ident = self.STRING_OF[key]
            b = prelude("P", False)
            b += f"        {V}::body_arm();\n"
            b += call(child.action, ['(0, "", 0)', '(0, "", 0)'], "unit")
            args = (['(0, "", 0)'] if prefix else []) + ["(0, unit, 0)"]
            b += call(p.action, args)
            b += f"        let (b_calls, b_id, b_si, b_di, b_ax, b_flag, b_seen) = unsafe {{ ({V}::B_CALLS, {V}::B_ID, {V}::B_SI, {V}::B_DI, {V}::B_AX, {V}::B_FLAG, {V}::B_SEEN) }};\n"
            b += "        let mut exp = old;\n"
            body_effect = "            exp.si = b_si; exp.di = b_di; exp.ax = b_ax; exp.flag = b_flag;\n"
            if prefix == "":
                b += A("string.body_executes_once", "b_calls == 1")
                b += A("string.mnemonic_selects_function", f"b_id == {ident}")
                b += A("string.body_sees_unmodified_registers", "b_seen == Some(old)")
                b += body_effect
                b += A("string.outcome", "ret == State::NEXT")
                cl0 = ["string.body_executes_once", "string.mnemonic_selects_function", "string.body_sees_unmodified_registers", "string.outcome"]
            else:
                b += "        if old.cx == 0 {\n    " + A("rep.cx0_body_not_executed", "b_calls == 0") + "    " + A("rep.cx0_outcome_NEXT", "ret == State::NEXT") + "        } else {\n"
                b += "    " + A("rep.body_executes_once_per_step", "b_calls == 1")
                b += "    " + A("string.mnemonic_selects_function", f"b_id == {ident}")
                b += "    " + A("string.body_sees_unmodified_registers", "b_seen == Some(old)")
                b += body_effect + "            exp.cx = old.cx - 1;\n"
                if prefix == "rep":
                    b += "    " + A("rep.outcome_REPEAT", "ret == State::REPEAT")
                elif prefix == "repz":
                    b += f"    " + A("rep.outcome_by_ZF", f"ret == if b_flag & {S}::ZF != 0 {{ State::REPEAT }} else {{ State::NEXT }}")
                elif prefix == "repnz":
                    b += f"    " + A("rep.outcome_by_ZF", f"ret == if b_flag & {S}::ZF == 0 {{ State::REPEAT }} else {{ State::NEXT }}")
                else:
                    self.skipped.append(p.sig)
                    return
                b += "        }\n"
                cl0 = ["rep.cx0_body_not_executed", "rep.cx0_outcome_NEXT", "rep.body_executes_once_per_step",
                       "string.mnemonic_selects_function", "string.body_sees_unmodified_registers",
                       "rep.outcome_REPEAT" if prefix == "rep" else "rep.outcome_by_ZF"]
            e, cl = epilogue("P", [], "")
            h = H("h_" + slug(p.sig) + "__" + key[0] + "_" + key[1], p.sig + "  [child: " + child.sig + "]", props, "P",
                  b + e + '        kani::cover!(true, "reachable");\n', cl0 + cl, stubs=stubs,
                  replay={"kind": "l3", "shape": "string", "prefix": prefix, "mn": key[0], "w": key[1]})
            h.group = "string"
            self.out.append(h)

    def singleton_arith(self, p: Production, props):
        """`"aaa" => aaa(vm)`: the production must behave exactly as a call of the intended L1 function
        (run on a second, identical machine); what that function does is its own L1 contract."""
        fns = ["aaa", "aad", "aam", "aas", "daa", "das", "cbw", "cwd"]
        mn = term_text(p.syms[0])
        if mn not in fns:
            return self.skipped.append(p.sig)
        b = prelude("P", False)
        b += f"        let mut twin = {V}::fenced_vm_with({arch_expr()});\n"
        b += f"        crate::instructions::arithmetic::{mn}(&mut twin);\n"
        b += call(p.action, ['(0, "", 0)'], "_ret")
        b += f"        let exp = {V}::regs(&twin);\n        {V}::forget_vm(twin);\n"
        e, cl = epilogue("P", [], "")
        self.add(p, props, "P", b + e, cl, replay={"kind": "table", "mn": mn})

    # ---- addressing: every derivation of memory_addr, and LEA on top of it ------------------
    ADDR_NTS = set()
    ADDR_REGS = {"bx", "bp", "si", "di"}

    def find_addr_nts(self):
        """addressing nonterminals = those whose every alternative is one of "bx"/"bp"/"si"/"di" or another such nonterminal"""
        nts = set()
        changed = True
        while changed:
            changed = False
            for nt, ps in self.by_nt.items():
                if nt in nts:
                    continue
                if all(len(p.syms) == 1 and ((is_term(p.syms[0]) and term_text(p.syms[0]) in self.ADDR_REGS) or p.syms[0] in nts)
                       for p in ps):
                    nts.add(nt)
                    changed = True
        return nts

    def derive(self, nt: str, ctr: List[int]):
        """all derivations of an addressing nonterminal: (code, var, regs_used, prods_used)"""
        res = []
        for p in self.by_nt.get(nt, []):
            if len(p.syms) == 1 and is_term(p.syms[0]):
                ctr[0] += 1
                v = f"a{ctr[0]}"
                res.append((call(p.action, ['(0, "", 0)'], v), v, [term_text(p.syms[0])], [p.sig]))
            elif len(p.syms) == 1 and p.syms[0] in self.ADDR_NTS:
                for code, var, regs, used in self.derive(p.syms[0], ctr):
                    ctr[0] += 1
                    v = f"a{ctr[0]}"
                    res.append((code + call(p.action, [f"(0, {var}, 0)"], v), v, regs, used + [p.sig]))
            else:
                self.skipped.append(p.sig)
        return res

    def memory_addr(self, p: Production, props, lea_prods: List[Production]):
        types = self.types(p)
        # enumerate combinations of derivations for every addressing nonterminal in the RHS
        combos = [([], [], [], [], [])]  # (code, args, regs, disp exprs, decls)
        disp_vars = []
        seg = None
        ctr = [0]
        for i, s in enumerate(p.syms):
            new = []
            if is_term(s):
                for c in combos:
                    new.append((c[0], c[1] + ['(0, "", 0)'], c[2], c[3], c[4]))
            elif s == "seg_reg":
                seg = "in_sr"
                for c in combos:
                    new.append((c[0], c[1] + [f"(0, {V}::word_reg_of(in_sr), 0)"], c[2], c[3],
                                c[4] + ["        let in_sr: u8 = kani::any();\n        kani::assume(in_sr < 12);\n"]))
            elif s in ("u_word_num", "s_word_num"):
                for c in combos:
                    new.append((c[0], c[1] + [f"(0, in_n{i}, 0)"], c[2], c[3] + [f"(in_n{i} as u16)"],
                                c[4] + [f"        let in_n{i}: {types[i]} = kani::any();\n"]))
                disp_vars.append(f"in_n{i}")
            elif s in self.ADDR_NTS:
                ds = self.derive(s, ctr)
                for c in combos:
                    for code, var, regs, used in ds:
                        new.append((c[0] + [code], c[1] + [f"(0, {var}, 0)"], c[2] + regs, c[3], c[4]))
            else:
                self.skipped.append(p.sig)
                return
            combos = new
        for code, args, regs, disps, decls in combos:
            parts = [f"old.{r}" for r in regs] + disps
            ea = "0u16"
            for x in parts:
                ea = f"{ea}.wrapping_add({x})"
            segv = f"{V}::spec_get16(&old, in_sr)" if seg else ("old.ss" if "bp" in regs else "old.ds")
            b = prelude("P", False, "".join(decls))
            b += "".join(code)
            b += call(p.action, args, "m")
            b += f"        let ea: u16 = {ea};\n        let seg: u16 = {segv};\n"
            body_addr = b + A("addr.physical_is_seg16_plus_16bit_offset_mod_1mb", f"m == {S}::phys(seg, ea)") + A("addr.below_1mb", f"m < {MBx}")
            body_addr += "        let exp = old;\n"
            e, cl = epilogue("P", [], "")
            tag = "_".join(regs) if regs else "direct"
            h = H("h_" + slug(p.sig) + "__" + tag, p.sig + f"  [regs: {','.join(regs) or '-'}]", props, "P",
                  body_addr + e + '        kani::cover!(true, "reachable");\n',
                  ["addr.physical_is_seg16_plus_16bit_offset_mod_1mb", "addr.below_1mb"] + cl,
                  replay={"kind": "l3", "shape": "addr", "regs": regs, "seg": bool(seg), "disp": list(disp_vars)})
            h.group = "memory_addr"
            self.out.append(h)
            # LEA composed with this addressing derivation
            for lp in lea_prods:
                if "memory_addr" not in lp.syms:
                    continue
                lb = b + "        let in_k: u8 = kani::any();\n        kani::assume(in_k < 12);\n"
                largs = []
                for s in lp.syms:
                    if is_term(s):
                        largs.append('(0, "", 0)')
                    elif s == "word_reg":
                        largs.append(f"(0, {V}::word_reg_of(in_k), 0)")
                    elif s == "memory_addr":
                        largs.append("(0, m, 0)")
                lb += call(lp.action, largs, "_ret")
                lb += A("lea.dest_is_16bit_offset_of_operand", f"{V}::spec_get16(&{V}::regs(&vm), in_k) == ea")
                # every other register unchanged: the destination is taken from the machine for the frame comparison
                lb += f"        let mut exp = old;\n        {V}::spec_set16(&mut exp, in_k, {V}::spec_get16(&{V}::regs(&vm), in_k));\n"
                e2, cl2 = epilogue("P", [], "")
                h2 = H("h_lea__" + slug(p.sig).replace("memory_addr__", "") + "__" + tag,
                       lp.sig + "  [operand: " + p.sig + f"; regs: {','.join(regs) or '-'}]", ["C04", "C09"], "P",
                       lb + e2 + '        kani::cover!(true, "reachable");\n', ["lea.dest_is_16bit_offset_of_operand"] + cl2,
                       replay={"kind": "l3", "shape": "lea", "regs": regs, "seg": bool(seg), "disp": list(disp_vars)})
                h2.group = "lea"
                self.out.append(h2)

    def lea_label(self, lp: Production):
        """lea <word reg>, <word data label>: the label nonterminal hands over phys(DS, offset of the label) (Verus unit
        transfer::it_word_label); LEA must give back the label's 16-bit offset for EVERY DS, also when DS*16+offset wraps
        at 1 MB, change no other register and touch no memory (fenced machine)."""
        b = prelude("P", False, "        let in_off: u16 = kani::any();\n        let in_k: u8 = kani::any();\n        kani::assume(in_k < 12);\n")
        b += f"        let m: usize = {S}::phys(old.ds, in_off);\n"
        largs = []
        for s in lp.syms:
            if is_term(s):
                largs.append('(0, "", 0)')
            elif s == "word_reg":
                largs.append(f"(0, {V}::word_reg_of(in_k), 0)")
            elif s == "word_label":
                largs.append("(0, m, 0)")
            else:
                return self.skipped.append(lp.sig)
        b += call(lp.action, largs, "_ret")
        b += A("lea.label_operand_gives_the_labels_offset", f"{V}::spec_get16(&{V}::regs(&vm), in_k) == in_off")
        b += f"        let mut exp = old;\n        {V}::spec_set16(&mut exp, in_k, {V}::spec_get16(&{V}::regs(&vm), in_k));\n"
        e, cl = epilogue("P", [], "")
        h = H("h_lea__word_label", lp.sig + "  [operand: data label at DS:offset]", ["C04", "C09"], "P",
              b + e + '        kani::cover!(true, "reachable");\n', ["lea.label_operand_gives_the_labels_offset"] + cl,
              replay={"kind": "l3", "shape": "lea_label"})
        h.group = "lea"
        self.out.append(h)

    # ---- driver ------------------------------------------------------------------------------------
    def run(self):
        self.ADDR_NTS = self.find_addr_nts()
        lea_prods = self.by_nt.get("lea", [])
        for lp in lea_prods:
            if "word_label" in lp.syms:
                self.lea_label(lp)
            elif "memory_addr" not in lp.syms:
                self.skipped.append(lp.sig)
        for p in self.prods:
            nt = p.nt
            if nt == "binary_arithmetic":
                self.binary(p, ["C01", "C04", "C09"])
            elif nt == "binary_logical":
                self.binary(p, ["C02", "C04", "C09"])
            elif nt == "unary_arithmetic":
                self.unary(p, ["C01", "C03", "C04", "C09"])
            elif nt == "not":
                self.not_(p, ["C02", "C04", "C09"])
            elif nt == "shift_rotate":
                self.shift(p, ["C02", "C04", "C09"])
            elif nt == "mov":
                self.mov(p, ["C05", "C04", "C09"])
            elif nt == "xchg":
                self.xchg(p, ["C05", "C04", "C09"])
            elif nt == "push":
                self.push(p, ["C05", "C09"])
            elif nt == "pop":
                self.pop(p, ["C05", "C09"])
            elif nt == "singleton_data_transfer":
                self.singleton_dt(p, ["C05", "C09"])
            elif nt in self.FN_TABLE:
                props = {"byte_binary_arithmetic": ["C01"], "word_binary_arithmetic": ["C01"],
                         "byte_unary_arithmetic": ["C01", "C03"], "word_unary_arithmetic": ["C01", "C03"],
                         "byte_binary_logical": ["C02"], "word_binary_logical": ["C02"],
                         "byte_shift_rotate": ["C02"], "word_shift_rotate": ["C02"]}[nt]
                self.fn_table(p, props + ["C09"])
            elif nt in ("byte_reg", "word_reg", "seg_reg", "pop_reg", "reg_cl"):
                self.reg_table(p, ["C04", "C05", "C09"])
            elif nt in ("s_byte_num", "s_word_num") and p.syms == ["u_word_num"]:
                self.number_cast(p, ["C05", "C01", "C09"])
            elif nt == "jumps_condition":
                self.jcond(p, ["C06", "C08", "C09"])   # C08: which instruction runs next depends on the jump being taken exactly when it should
            elif nt == "control":
                self.control(p, ["C09", "C08"])
            elif nt == "string":
                self.string(p, ["C07", "C09"])
            elif nt == "singleton_arithmetic":
                self.singleton_arith(p, ["C03", "C09"])
            elif nt == "memory_addr":
                self.memory_addr(p, ["C04", "C09"], lea_prods)
            elif nt == "Interpreter":
                exp = {"bit_manipulation": "State::NEXT", "data_transfer": "State::NEXT", "print_stmt": "State::PRINT"}.get(p.syms[0])
                self.passthrough(p, ["C09", "C08"], exp)
            elif nt == "arithmetic":
                exp = {"binary_arithmetic": "State::NEXT", "singleton_arithmetic": "State::NEXT"}.get(p.syms[0])
                self.passthrough(p, ["C01", "C03", "C09"], exp)
            elif nt in ("transfer",):
                self.passthrough(p, ["C08", "C09"], None)
            elif nt in ("bit_manipulation", "data_transfer"):
                self.passthrough(p, ["C09"], "()")
        return self.out


def module_text(hs: List[H]) -> str:
    out = ["", "#[cfg(kani)]", "#[allow(unused_variables, unused_mut, unused_parens, unused_unsafe, unused_assignments)]", "mod verif_l3 {",
           "    use super::*;"]
    for h in hs:
        out.append("    #[kani::proof]")
        if h.unwind:
            out.append(f"    #[kani::unwind({h.unwind})]")
        for a, b in h.stubs:
            out.append(f"    #[kani::stub({a}, {b})]")
        out.append(f"    fn {h.name}() {{")
        out.append(h.body.rstrip("\n"))
        out.append("    }")
    out.append("}")
    return "\n".join(out) + "\n"
