"""Kani engine: build the annotated scratch copy with every contract / harness, select the
obligations of a property, run them, extract counterexamples."""
import glob
import json
import os
import re
import subprocess
import time
from dataclasses import dataclass, field
from typing import Dict, List, Optional

import kani_l1
import kani_l3
import kani_run
import prodtable
from scratch import Annotator, Undecided, ENV, VERIF

KANI_BIN = os.path.expanduser("~/.kani/kani-0.68.0/bin")
REG_BITS = {r: i for i, r in enumerate(kani_l1.INPUT_REGS)}


@dataclass
class Unit:
    """one Kani harness = one group of named obligations"""
    name: str
    props: List[str]
    klass: str                      # P fenced | M heap + arrays-uf | Z z3
    clauses: List[str]
    kind: str                       # contract | harness | production
    target: str                     # function name or production signature
    file: str
    replay: dict = field(default_factory=dict)
    group: str = ""
    twin_of: Optional[str] = None   # known-finding twin
    finding: Optional[dict] = None
    driver: str = ""                # kani (needs goto-instrument --dfcc: contracts, stub_verified) | own
    bounded: str = ""               # non-empty: a bounded stand-in (never counted as proved)

    @property
    def fq(self):
        """fully qualified harness name (Kani's --harness matches substrings unless --exact)"""
        mod = self.file[len("src/lib/"):-len(".rs")].replace("/", "::")
        sub = {"contract": "verif_l1", "harness": "verif_l0", "production": "verif_l3"}[self.kind]
        if self.kind == "harness" and self.group == "L1":
            sub = "verif_l1"
        return f"{mod}::{sub}::{self.name}"


def _apply_region(text: str, clause: str, region: str) -> str:
    """rewrite  /*[clause*/ EXPR /*]*/  into  (!kf && REGION) || (EXPR)  (first occurrence after the marker)"""
    mk = f"/*[{clause}*/"
    i = text.find(mk)
    if i < 0:
        return None
    j = text.index("/*]*/", i)
    expr = text[i + len(mk):j]
    return text[:i] + f"(!{kani_l1.V}::kf_mode() && ({region})) || ({expr})" + text[j + len("/*]*/"):]


def _apply_regmask(text: str, reg: str, region: str) -> str:
    mk = "/*[regmask*/"
    i = text.find(mk)
    if i < 0:
        return None
    j = text.index("/*]*/", i)
    expr = text[i + len(mk):j]
    bit = REG_BITS[reg]
    new = f"{expr} | (if !{kani_l1.V}::kf_mode() && ({region}) {{ 1u16 << {bit} }} else {{ 0 }})"
    return text[:i] + mk + new + text[j:]


def _apply_exact(text: str, clause: str, region: str) -> str:
    """region-exactness twin: the clause is replaced by  REGION ==> !CLAUSE  (inside the region it always fails)"""
    mk = f"/*[{clause}*/"
    i = text.find(mk)
    if i < 0:
        return None
    j = text.index("/*]*/", i)
    expr = text[i + len(mk):j]
    return text[:i] + f"!({region}) || !({expr})" + text[j + len("/*]*/"):]


def _twin_body(body: str, witness: Dict[str, int]) -> str:
    lines = body.split("\n")
    last = max(i for i, l in enumerate(lines) if "kani::any()" in l)
    k = last + 1
    while k < len(lines) and "kani::assume" in lines[k]:
        k += 1
    cond = " && ".join(f"{n} as i64 == {v}" for n, v in witness.items()) or "true"
    ins = [f"        {kani_l1.V}::set_kf_mode();", f"        kani::assume({cond});"]
    return "\n".join(lines[:k] + ins + lines[k:])


def contract_as_harness(c) -> str:
    """the contract of an L1 function restated as assertions of a plain proof harness
    (old(x) -> the named input, *val -> v, *r -> r); used only for functions with a listed finding"""
    V = kani_l1.V
    h = c.harness
    unary = "&mut in_op1" in h
    lines = [l for l in h.rstrip("\n").split("\n") if "forget_vm" not in l and f"{c.fn}(" not in l]
    b = "\n".join(lines) + "\n"
    b += f"        let old = {V}::regs(&vm);\n"
    if unary:
        b += f"        let mut v = in_op1;\n        let r = {c.fn}(&mut vm, &mut v);\n"
    elif "in_op2" in h:
        b += f"        let (op1, op2, dest, source, val, num) = (in_op1, in_op2, in_op1, in_op2, in_op1, in_op2);\n"
        b += f"        let r = {c.fn}(&mut vm, in_op1, in_op2);\n"
    else:
        b += f"        let r = {c.fn}(&mut vm);\n"

    def tr(e):
        e = e.replace("old(*val)", "in_op1").replace("old(vm.arch.flag)", "in_flag").replace("old(vm.arch.ax)", "in_ax")
        e = e.replace("old(vm.arch.dx)", "in_dx").replace("*val", "v").replace("*r", "r")
        return e
    for name, expr in c.ensures:
        b += f'        assert!(/*[{name}*/ {tr(expr)} /*]*/, "{name}");\n'
    mods = {"&vm.arch.flag": "flag", "&vm.arch.ax": "ax", "&vm.arch.dx": "dx"}
    b += "        let mut exp = old;\n"
    for m in c.modifies:
        if m in mods:
            b += f"        exp.{mods[m]} = vm.arch.{mods[m]};\n"
    b += f'        assert!({V}::regs(&vm) == exp, "frame");\n'
    b += f"        {V}::forget_vm(vm);"
    return b


class KaniBuild:
    def __init__(self, dst: str, findings: List[dict]):
        self.dst = dst
        self.findings = [f for f in findings if f.get("status") == "known" and f.get("engine", "kani") == "kani"]
        self.units: Dict[str, Unit] = {}
        self.fallback = []
        self.clause_text: Dict[str, Dict[str, str]] = {}
        self._sv = set()
        self.skipped: List[str] = []
        self.diff = ""
        self.stale_findings: List[dict] = []

    # ------------------------------------------------------------------ build
    def build(self):
        an = Annotator(self.dst)
        spec = os.path.join(VERIF, "spec/i8086_spec.rs")
        sup = os.path.join(VERIF, "contracts/kani/verif_support.rs")
        an.append("src/lib/lib.rs",
                  f'\n#[cfg(kani)]\n#[path = "{spec}"]\npub mod i8086_spec;\n#[cfg(kani)]\n#[path = "{sup}"]\npub mod verif_support;\n')
        fby = {}
        for f in self.findings:
            fby.setdefault(f["unit"], []).append(f)

        def remember(unit_name: str, text: str):
            d = self.clause_text.setdefault(unit_name, {})
            for m in re.finditer(r"/\*\[([\w.]+)\*/(.*?)/\*\]\*/", text, re.S):
                if m.group(1) != "regmask":
                    d.setdefault(m.group(1), re.sub(r"\s+", " ", m.group(2)).strip()[:400])

        def regionise(unit_name: str, text: str) -> str:
            remember(unit_name, text)
            for f in fby.get(unit_name, []):
                cl = f["clause"]
                new = _apply_regmask(text, cl[4:], f["region"]) if cl.startswith("reg.") else _apply_region(text, cl, f["region"])
                if new is None:
                    raise Undecided(f"known finding {unit_name}/{cl}: clause anchor not found in the generated contract")
                text = new
            return text

        # ---- L1 contracts (attributes on the real functions) + proof_for_contract harnesses
        for file, cs in kani_l1.CONTRACTS.items():
            mod = ["", "#[cfg(kani)]", "#[allow(unused_mut, unused_variables)]", "mod verif_l1 {", "    use super::*;"]
            for c in cs:
                name = "c_" + c.fn
                clauses = c.sub_clauses or [n for n, _ in c.ensures]
                if name in fby:
                    # Kani 0.68 havocs `static mut` under proof_for_contract, so the known-finding twin switch
                    # cannot be read inside an ensures clause: a contract with a listed finding is stated
                    # harness-style instead (same clauses, mechanically renamed; frame = whole-state compare).
                    hb = contract_as_harness(c)
                    body = regionise(name, hb) + '\n        kani::cover!(true, "reachable");'
                    self.units[name] = Unit(name, primary_props(c.props, "L1"), c.klass, clauses + ["frame"], "harness", c.fn, file, c.replay, group="L1")

                    def emit_h(hname, hbody, c=c):
                        mod.append("    #[kani::proof]")
                        if c.unwind:
                            mod.append(f"    #[kani::unwind({c.unwind})]")
                        mod.append(f"    fn {hname}() {{")
                        mod.append(hbody)
                        mod.append("    }")
                    emit_h(name, body)
                    for k, f in enumerate(fby[name]):
                        tname = f"kf_{name}_{k}"
                        emit_h(tname, _twin_body(hb, f["witness"]))
                        self.units[tname] = Unit(tname, primary_props(c.props, "L1"), c.klass, [f["clause"]], "harness", c.fn, file, c.replay,
                                                 group="L1", twin_of=name, finding=f)
                        xb = _apply_exact(hb, f["clause"], f["region"])
                        if xb:
                            emit_h(f"kx_{name}_{k}", xb + '\n        kani::cover!(true, "reachable");')
                            self.units[f"kx_{name}_{k}"] = Unit(f"kx_{name}_{k}", primary_props(c.props, "L1"), c.klass, [f["clause"]], "harness", c.fn, file,
                                                                c.replay, group="L1", twin_of=name, finding=dict(f, exact=True))
                    continue
                remember(name, kani_l1.attrs(c))
                an.attrs_above(file, c.fn, kani_l1.attrs(c))
                body = c.harness.rstrip("\n") + f'\n        kani::cover!(true, "reachable");'
                self.units[name] = Unit(name, primary_props(c.props, "L1"), c.klass, clauses, "contract", c.fn, file, c.replay, group="L1")
                mod.append(f"    #[kani::proof_for_contract({c.fn})]")
                if c.unwind:
                    mod.append(f"    #[kani::unwind({c.unwind})]")
                mod.append(f"    fn {name}() {{")
                mod.append(body)
                mod.append("    }")
            mod.append("}")
            an.append(file, "\n".join(mod) + "\n")

        # ---- L0 and INC/DEC harness-style contracts
        for file, hs in kani_l1.L0_HARNESSES.items():
            mod = ["", "#[cfg(kani)]", "#[allow(unused_mut, unused_variables)]", "mod verif_l0 {", "    use super::*;"]
            for h in hs:
                body = regionise(h.name, h.body.rstrip("\n")) + f'\n        kani::cover!(true, "reachable");'
                self.units[h.name] = Unit(h.name, primary_props(h.props, "L0"), h.klass, h.clauses, "harness", ", ".join(h.fns), file, h.replay, group="L0",
                                          bounded=getattr(h, "bounded", ""))

                def emit(hname, hbody, h=h):
                    if h.stub_verified:
                        self._sv.add(hname)
                    mod.append("    #[kani::proof]")
                    if h.unwind:
                        mod.append(f"    #[kani::unwind({h.unwind})]")
                    for st in h.stub_verified:
                        mod.append(f"    #[kani::stub_verified({st})]")
                    for st in h.stubs:
                        mod.append(f"    #[kani::stub({st})]")
                    mod.append(f"    fn {hname}() {{")
                    mod.append(hbody)
                    mod.append("    }")
                emit(h.name, body)
                for k, f in enumerate(fby.get(h.name, [])):
                    tname = f"kf_{h.name}_{k}"
                    emit(tname, _twin_body(h.body.rstrip("\n"), f["witness"]))
                    self.units[tname] = Unit(tname, primary_props(h.props, "L0"), h.klass, [f["clause"]], "harness", ", ".join(h.fns), file,
                                             h.replay, group="L0", twin_of=h.name, finding=f)
                    xb = _apply_exact(h.body.rstrip("\n"), f["clause"], f["region"])
                    if xb:
                        emit(f"kx_{h.name}_{k}", xb + '\n        kani::cover!(true, "reachable");')
                        self.units[f"kx_{h.name}_{k}"] = Unit(f"kx_{h.name}_{k}", primary_props(h.props, "L0"), h.klass, [f["clause"]], "harness",
                                                              ", ".join(h.fns), file, h.replay, group="L0", twin_of=h.name, finding=dict(f, exact=True))
            mod.append("}")
            an.append(file, "\n".join(mod) + "\n")

        # ---- L2/L3 production harnesses, generated from the production table of THIS run
        irs = "src/lib/interpreter/interpreter.rs"
        text, acts, prods = prodtable.load(os.path.join(self.dst, irs))
        self.prods = prods
        g = kani_l3.Gen(prods, acts)
        hs = g.run()
        self.skipped = g.skipped
        mod = ["", "#[cfg(kani)]",
               "#[allow(unused_variables, unused_mut, unused_parens, unused_unsafe, unused_assignments, unused_braces)]",
               "mod verif_l3 {", "    use super::*;"]
        for h in hs:
            body = regionise(h.name, h.body.rstrip("\n"))
            self.units[h.name] = Unit(h.name, primary_props(h.props, h.group), h.klass, h.clauses, "production", h.sig, irs, h.replay, group=h.group)

            def emit(hname, hbody, h=h):
                mod.append("    #[kani::proof]")
                for a, b in h.stubs:
                    mod.append(f"    #[kani::stub({a}, {b})]")
                mod.append(f"    fn {hname}() {{")
                mod.append(hbody)
                mod.append("    }")
            emit(h.name, body)
            for k, f in enumerate(fby.get(h.name, [])):
                tname = f"kf_{h.name}_{k}"
                emit(tname, _twin_body(h.body.rstrip("\n"), f["witness"]))
                self.units[tname] = Unit(tname, primary_props(h.props, h.group), h.klass, [f["clause"]], "production", h.sig, irs, h.replay,
                                         group=h.group, twin_of=h.name, finding=f)
                xb = _apply_exact(h.body.rstrip("\n"), f["clause"], f["region"])
                if xb:
                    emit(f"kx_{h.name}_{k}", xb)
                    self.units[f"kx_{h.name}_{k}"] = Unit(f"kx_{h.name}_{k}", primary_props(h.props, h.group), h.klass, [f["clause"]], "production", h.sig,
                                                          irs, h.replay, group=h.group, twin_of=h.name, finding=dict(f, exact=True))
        # vacuity probe: must be refuted
        mod.append("    #[kani::proof]\n    fn vacuity_must_fail() {\n        let x: u8 = kani::any();\n"
                   "        assert!(x != 0x5A, \"vacuity.must_fail\");\n    }")
        mod.append("}")
        an.append(irs, "\n".join(mod) + "\n")
        # ---- assembler synonym table (C06): every spelling is emitted as a mnemonic the interpreter defines,
        #      and that mnemonic carries the spelling's Intel predicate
        prs = "src/lib/preprocessor/preprocessor.rs"
        ptext, pacts, pprods = prodtable.load(os.path.join(self.dst, prs))
        terms = sorted({kani_l3.term_text(p.syms[0]) for p in prods if p.nt == "jumps_condition" and kani_l3.is_term(p.syms[0])})
        pat = " | ".join(f'"{t}"' for t in terms) or '""'
        S, V = kani_l1.S, kani_l1.V
        pmod = ["", "#[cfg(kani)]", "#[allow(non_snake_case, unused_variables)]", "mod verif_l3 {", "    use super::*;"]
        nsyn = 0
        for p in pprods:
            if p.nt != "quote_jmps_loops" or len(p.syms) != 1 or not kani_l3.is_term(p.syms[0]):
                continue
            sp = kani_l3.term_text(p.syms[0])
            hname = "h_pp_quote_jmps_loops_" + sp
            body = (f"        let ctx = {V}::forged::<util::Context>();\n        let out = {V}::forged::<util::Output>();\n"
                    f"        let r: String = __action{p.action}(ctx, out, \"\", (0, \"\", 0));\n"
                    f"        let in_flag: u16 = kani::any();\n        let in_cx: u16 = kani::any();\n"
                    f"        assert!(matches!(r.as_str(), {pat}), \"synonym.emitted_mnemonic_exists_in_interpreter\");\n"
                    f"        let a = {S}::cond(r.as_str(), in_flag, in_cx);\n        let b = {S}::cond(\"{sp.lower()}\", in_flag, in_cx);\n"
                    f"        assert!(b.is_some(), \"synonym.spelling_known_to_reference\");\n"
                    f"        assert!(a == b, \"synonym.same_intel_predicate\");\n"
                    f"        kani::cover!(true, \"reachable\");")
            pmod += ["    #[kani::proof]", "    #[kani::unwind(16)]", f"    fn {hname}() {{", body, "    }"]
            self.units[hname] = Unit(hname, ["C06"], "P",
                                     ["synonym.emitted_mnemonic_exists_in_interpreter", "synonym.spelling_known_to_reference", "synonym.same_intel_predicate"],
                                     "production", p.sig + "  (assembler)", prs, {"kind": "synonym", "spelling": sp}, group="synonym")
            nsyn += 1
        # ---- assembler spelling tables: every `quote_x = "SPELLING" => "mnemonic".to_owned()` production returns the
        #      lower-case spelling (or its documented synonym); a wrong entry makes one spelling mean another instruction
        TABLES = {"quote_control_supported": ["C08"], "quote_binary_arithmetic": ["C01"], "quote_unary_arithmetic": ["C01", "C03"],
                  "quote_singleton_arithmetic": ["C03"], "quote_binary_logical": ["C02"], "quote_shift_rotate": ["C02"],
                  "quote_singleton_transfer": ["C05"], "quote_condition_repeat": ["C07"], "quote_condition_repeat_opcode": ["C07"],
                  "quote_repeat_opcode": ["C07"], "gen_byte_reg": ["C04", "C05"], "gen_word_reg": ["C04", "C05"], "reg_cl": ["C04", "C02"],
                  "base_reg": ["C04"], "index_reg": ["C04"], "seg_reg": ["C04", "C05"], "pop_reg": ["C05"],
                  "quote_byte_length": ["C04"], "quote_word_length": ["C04"]}
        ALIAS = {"shl": "sal", "repe": "repz", "repne": "repnz"}
        for p in pprods:
            if p.nt not in TABLES or len(p.syms) != 1 or not kani_l3.is_term(p.syms[0]) or pacts[p.action].ret != "String":
                continue
            sp = kani_l3.term_text(p.syms[0])
            want = ALIAS.get(sp.lower(), sp.lower())
            hname = f"h_pp_{p.nt}_{sp}"
            body = (f"        let ctx = {V}::forged::<util::Context>();\n        let out = {V}::forged::<util::Output>();\n"
                    f"        let r: String = __action{p.action}(ctx, out, \"\", (0, \"\", 0));\n"
                    f"        assert!(r.as_str() == \"{want}\", \"table.spelling_emits_its_mnemonic\");\n"
                    f"        kani::cover!(true, \"reachable\");")
            pmod += ["    #[kani::proof]", "    #[kani::unwind(16)]", f"    fn {hname}() {{", body, "    }"]
            self.units[hname] = Unit(hname, TABLES[p.nt], "P", ["table.spelling_emits_its_mnemonic"], "production",
                                     p.sig + "  (assembler)", prs, {"kind": "table", "spelling": sp}, group="pp_table")
            nsyn += 1
        # ---- assembler number literals (C14, BOUNDED in the number of digits): a constant is accepted iff it is in
        #      the range of its operand type, with exactly its value; otherwise it is refused
        NUM = {'r#"[0-9]+"#': ("", 10), 'r#"0(x|X)[0-9A-Fa-f]+"#': ("0x", 16), 'r#"0(b|B)[0-1]+"#': ("0b", 2), 'r#"-[0-9]+"#': ("-", 10)}
        DIG = {("u8", 10): 4, ("u8", 16): 3, ("u8", 2): 10, ("u16", 10): 6, ("u16", 16): 5, ("u16", 2): 18,
               ("i8", 10): 4, ("i16", 10): 6, ("u32", 10): 11, ("u32", 16): 9, ("u32", 2): 34}
        for p in pprods:
            if p.nt not in ("u_byte_num", "u_word_num", "s_byte_num", "s_word_num", "raw_addr") or len(p.syms) != 1 or p.syms[0] not in NUM:
                continue
            prefix, radix = NUM[p.syms[0]]
            rt = re.match(r"Result<(\w+),", pacts[p.action].ret)
            if not rt or (rt.group(1), radix) not in DIG:
                continue
            ty = rt.group(1)
            nd = DIG[(ty, radix)]
            if nd > 12 and os.environ.get("VERIF_TIER_EFFECTIVE") != "thorough":
                continue          # 18/34-digit binary literals: thorough tier only (cost)
            neg = prefix == "-"
            hname = f"b_pp_{p.nt}_{ {10: 'dec', 16: 'hex', 2: 'bin'}[radix] }{'_neg' if neg else ''}"
            plen = len(prefix)
            digit_ok = {10: "d >= b'0' && d <= b'9'", 2: "d == b'0' || d == b'1'",
                        16: "(d >= b'0' && d <= b'9') || (d >= b'a' && d <= b'f') || (d >= b'A' && d <= b'F')"}[radix]
            dval = {10: "(d - b'0') as u64", 2: "(d - b'0') as u64",
                    16: "(if d <= b'9' { d - b'0' } else if d >= b'a' { d - b'a' + 10 } else { d - b'A' + 10 }) as u64"}[radix]
            lim = {"u8": ("255", "v as u64 == val"), "u16": ("65535", "v as u64 == val"), "i8": ("128", "(v as i64) == -(val as i64)"),
                   "i16": ("32768", "(v as i64) == -(val as i64)"), "u32": ("4294967295", "v as u64 == val % 1048576")}[ty]
            pre = "".join(f"        buf[{i}] = b'{c}';\n" for i, c in enumerate(prefix))
            body = (f"        let ctx = {V}::forged::<util::Context>();\n        let out = {V}::forged::<util::Output>();\n"
                    f"        let mut buf = [b'0'; {plen + nd}];\n{pre}"
                    f"        let in_nd: usize = kani::any();\n        kani::assume(in_nd >= 1 && in_nd <= {nd});\n"
                    f"        let mut val: u64 = 0;\n        let mut i = 0;\n"
                    f"        while i < {nd} {{\n            if i < in_nd {{\n                let d: u8 = kani::any();\n"
                    f"                kani::assume({digit_ok});\n                buf[{plen} + i] = d;\n"
                    f"                val = val * {radix} + {dval};\n            }}\n            i += 1;\n        }}\n"
                    f"        let text = unsafe {{ std::str::from_utf8_unchecked(&buf[..{plen} + in_nd]) }};\n"
                    f"        let r = __action{p.action}(ctx, out, \"\", (0, text, 0));\n"
                    f"        match r {{\n"
                    f"            Ok(v) => {{ assert!(val <= {lim[0]}, \"number.out_of_range_is_refused\"); assert!({lim[1]}, \"number.accepted_with_its_value\"); }}\n"
                    f"            Err(_) => {{ assert!(val > {lim[0]}, \"number.in_range_is_accepted\"); }}\n        }}\n"
                    f"        kani::cover!(true, \"reachable\");")
            # the panic path of str slicing formats the string (Display): that formatting code dominates CBMC's cost and
            # is irrelevant here (a failed slice is still a failed assertion through the stub's panic)
            pmod += ["    #[kani::proof]", f"    #[kani::unwind({nd + 4})]",
                     f"    #[kani::stub(core::str::slice_error_fail, {V}::slice_fail)]", f"    fn {hname}() {{", body, "    }"]
            self.units[hname] = Unit(hname, ["C14"], "P", ["number.out_of_range_is_refused", "number.accepted_with_its_value", "number.in_range_is_accepted"],
                                     "production", p.sig + "  (assembler)", prs, {"kind": "number", "radix": radix, "type": ty}, group="pp_number",
                                     bounded=f"literals of at most {nd} digits (radix {radix}, type {ty}); unwind({nd + 4}) with unwinding assertions")
            nsyn += 1
        pmod.append("}")
        if nsyn:
            an.append(prs, "\n".join(pmod) + "\n")
        # (loader string forms `db "..."` / `dw "..."`: a bounded Kani harness was tried -- CBMC's SMT2 back end aborts on the
        #  str slice and the SAT encoding of `.bytes()` over the 1 MB memory needs > 60 GB -- so they stay outside the contracts)
        for u in self.units.values():
            u.driver = "kani" if (u.kind == "contract" or u.name.lstrip("kf_") in self._sv or u.name in self._sv) else "own"
        for f in self.findings:
            if f["unit"] not in self.units:
                raise Undecided(f"known finding refers to a unit that no longer exists: {f['unit']}")
        self.diff = an.commit()
        # the repository's build.rs must not regenerate (and thereby drop the appended modules)
        with open(os.path.join(self.dst, "build.rs"), "w") as f:
            f.write("fn main() {}\n")

    # -------------------------------------------------------------------- run
    def run(self, names: List[str], jobs: int, log: str, timeout: int = 5400) -> Dict[str, kani_run.HResult]:
        """contract units (proof_for_contract, needs goto-instrument --dfcc) go through Kani's own driver;
        plain proof harnesses go through cbmc_driver (same pipeline, CBMC in text mode, z3 for class M)"""
        import cbmc_driver
        res = {}
        con = [n for n in names if self.units[n].driver == "kani"]
        plain = [n for n in names if self.units[n].driver != "kani"]
        fq = lambda ns: [self.units[n].fq for n in ns]
        cp = [n for n in con if self.units[n].klass != "Z"]
        cz = [n for n in con if self.units[n].klass == "Z"]
        if cp:
            res.update(kani_run.run_batch(self.dst, fq(cp), jobs, False, timeout, log, harness_timeout=900))
        if cz:
            res.update(kani_run.run_batch(self.dst, fq(cz), min(jobs, 4), False, timeout, log, extra=["--solver", "z3"],
                                          harness_timeout=600))
        vac = "interpreter::interpreter::verif_l3::vacuity_must_fail"
        want = {self.units[n].fq: {"M": "z3", "S": "cadical-uf"}.get(self.units[n].klass, "cadical") for n in plain}
        want[vac] = "cadical"
        try:
            hints = json.load(open(os.path.join(VERIF, "contracts", "solver_hints.json")))
        except Exception:
            hints = {}
        for fqn in list(want):
            if fqn.split("::")[-1] in hints:
                want[fqn] = hints[fqn.split("::")[-1]]
        meta = cbmc_driver.codegen(self.dst, list(want.keys()), log)
        gdir = os.path.join(os.path.dirname(self.dst), "goto")
        slowok = {self.units[n].fq: want[self.units[n].fq] for n in plain if self.units[n].bounded}
        fast = {k: v for k, v in want.items() if k not in slowok}
        self.own = cbmc_driver.run_many(self.dst, meta, fast, jobs, gdir, log, timeout=240)
        if slowok:
            # bounded stand-ins (string / digit loops): allowed more time
            self.own.update(cbmc_driver.run_many(self.dst, meta, slowok, jobs, gdir, log, timeout=int(os.environ.get("VERIF_BOUNDED_TIMEOUT", "1500"))))
        # the SMT back end occasionally does not finish on a 1 MB-memory unit; SAT with arrays as uninterpreted
        # functions always has so far (~80 s, 11 GB each, hence at most 4 at a time)
        slow = {fq: "cadical-uf" for fq, sv in want.items() if sv == "z3" and self.own.get(fq.split("::")[-1]) is not None
                and self.own[fq.split("::")[-1]].status == "timeout"}
        if slow:
            again = cbmc_driver.run_many(self.dst, meta, slow, min(4, jobs), gdir, log, timeout=1500)
            self.own.update(again)
            self.fallback = sorted(again.keys())
        res.update(self.own)
        return res

    # ------------------------------------------------------- counterexamples
    def counterexample(self, unit: Unit, log: str) -> dict:
        if unit.driver != "kani":
            return self._cex_own(unit, log)
        return self._cex_kani(unit, log)

    def _cex_own(self, unit: Unit, log: str) -> dict:
        import cbmc_driver
        r = self.own.get(unit.name)
        result = {"failed_checks": [{"description": f} for f in (r.failed_checks if r else [])], "traces": []}
        seen = set()
        for fc in (r.failed_checks if r else []):
            desc, _, prop = fc.partition("  @")
            cl = clause_of(desc)
            if cl in seen or not prop:
                continue
            seen.add(cl)
            out = cbmc_driver.trace(self.dst, r, prop)
            result["traces"].append(self._parse_trace(out, cl, prop))
            if len(result["traces"]) >= 4:
                break
        return result

    @staticmethod
    def _parse_trace(out: str, cl: str, prop: str) -> dict:
        inputs, probes = {}, {}
        for tm in re.finditer(r"^\s+(in_\w+)=(-?\d+)", out, re.M):
            inputs.setdefault(tm.group(1), int(tm.group(2)))
        for tm in re.finditer(r"^\s+(?:[\w:]+::)?(P_[A-Z]+|B_[A-Z]+)=(-?\d+|TRUE|FALSE)", out, re.M):
            v = tm.group(2)
            probes[tm.group(1)] = {"TRUE": 1, "FALSE": 0}.get(v, int(v) if v.lstrip("-").isdigit() else v)
        return {"clause": cl, "property": prop, "inputs": inputs, "probe": probes, "cbmc_tail": out[-1500:]}

    def _cex_kani(self, unit: Unit, log: str) -> dict:
        """re-run one failed contract harness verbosely, then ask CBMC for a property-directed trace"""
        cmd = ["cargo", "kani"] + kani_run.KANI_FLAGS + ["--harness", unit.fq, "--exact", "--keep-temps", "--verbose"]
        if unit.klass == "Z":
            cmd += ["--solver", "z3"]
        try:
            p = subprocess.run(cmd, cwd=self.dst, env=ENV, stdout=subprocess.PIPE, stderr=subprocess.STDOUT, text=True,
                               errors="replace", timeout=2400)
        except subprocess.TimeoutExpired:
            return {"error": "timeout while re-running the harness for a trace"}
        out = p.stdout
        with open(log, "a") as f:
            f.write("\n$ " + " ".join(cmd) + "\n" + out[-20000:])
        m = re.findall(r"\[Kani\] Running: `(cbmc [^`]*)`", out)
        if not m:
            return {"error": "no cbmc command in verbose output"}
        cb = m[-1].split()
        cb = [x for x in cb if x not in ("--json-ui",)]
        if "--verbosity" in cb:
            k = cb.index("--verbosity")
            del cb[k:k + 2]
        cb[0] = os.path.join(KANI_BIN, "cbmc")
        fails = []
        for cm in re.finditer(r"Check \d+: (\S+)\n\s+- Status: FAILURE\n\s+- Description: \"(.*?)\"\n", out, re.S):
            fails.append((cm.group(1), re.sub(r"\s+", " ", cm.group(2))))
        result = {"failed_checks": [{"property": a, "description": b[:400]} for a, b in fails], "traces": []}
        seen = set()
        for prop, desc in fails:
            cl = clause_of(desc)
            if cl in seen:
                continue
            seen.add(cl)
            try:
                tp = subprocess.run(cb + ["--property", prop, "--trace"], cwd=self.dst, stdout=subprocess.PIPE,
                                    stderr=subprocess.STDOUT, text=True, errors="replace", timeout=1800)
            except subprocess.TimeoutExpired:
                result["traces"].append({"clause": cl, "error": "trace timeout"})
                continue
            result["traces"].append(self._parse_trace(tp.stdout, cl, prop))
            if len(result["traces"]) >= 4:
                break
        return result


C04_PRIMARY_GROUPS = {"memory_addr", "lea", "byte_reg", "word_reg", "seg_reg", "pop_reg", "reg_cl", "L0"}


def primary_props(props, group):
    """C09 is never primary (it owns the `total` clause of every unit); C04 is primary only for the
    addressing / register-aliasing units (elsewhere it owns the `mem.frame` clause)."""
    out = [p for p in props if p != "C09" and (p != "C04" or group in C04_PRIMARY_GROUPS)]
    return out or [p for p in props if p != "C09"] or props


def clause_props(unit, clause):
    pr = set(unit.props)
    if clause == "total" and (getattr(unit, "group", "") in ("pp_table", "pp_number", "synonym") or unit.name.startswith("b_lexer")):
        pr = pr | {"C15"}
    if getattr(unit, "group", "") in ("pp_table", "pp_number", "synonym"):
        pr = pr | {"C11"}      # C11: the lowered instruction does not depend on the spelling / the notation of a constant
    if clause == "total":
        return pr | {"C09"}
    if clause == "addr.below_1mb":
        return pr | {"C04", "C09"}
    if clause in ("mem.frame", "mem.dest") and unit.klass == "M" and unit.kind == "production":
        # C04: a memory operand is WRITTEN at its cells (mem.dest: which cells, a word low byte first) and nowhere else (mem.frame)
        return pr | {"C04"}
    return pr


def unit_serves(unit, pid):
    if pid in unit.props or pid == "C09":
        return True
    if pid == "C11" and getattr(unit, "group", "") in ("pp_table", "pp_number", "synonym"):
        return True
    if pid == "C15" and (getattr(unit, "group", "") in ("pp_table", "pp_number", "synonym") or unit.name.startswith("b_lexer")):
        return True          # C15 (partial): the `total` clause of the front end's units
    if pid == "C04" and unit.klass == "M" and unit.kind == "production" and "mem.frame" in unit.clauses:
        return True
    return False


def clause_of(desc: str) -> str:
    desc = desc.partition("  @")[0]
    m = re.search(r'clause\("([^"]+)"', desc)
    if m:
        return m.group(1)
    m = re.match(r'"?([A-Za-z0-9_.]+)"?$', desc.strip())
    if m:
        return m.group(1)
    m = re.match(r'"([A-Za-z0-9_.]+)"', desc.strip())
    if m:
        return m.group(1)
    return "total:" + desc.strip()[:120]
