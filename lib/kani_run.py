"""Run Kani on the annotated scratch copy and parse per-harness results."""
import os
import re
import subprocess
import time
from dataclasses import dataclass, field
from typing import Dict, List

from scratch import ENV, Undecided

KANI_FLAGS = ["-Z", "function-contracts", "-Z", "stubbing", "-Z", "unstable-options"]
CBMC_M = ["--cbmc-args", "--arrays-uf-always"]


@dataclass
class HResult:
    harness: str
    status: str = "missing"          # ok | failed | error | timeout | missing
    failed_checks: List[str] = field(default_factory=list)
    time_s: float = 0.0
    checks_total: int = 0
    raw: str = ""
    cover_ok: bool = True


def short(full: str) -> str:
    return full.split("::")[-1]


def parse_terse(out: str) -> Dict[str, HResult]:
    res: Dict[str, HResult] = {}
    cur_by_thread = {}
    lines = out.split("\n")
    i = 0
    active = None
    block: List[str] = []

    def flush():
        nonlocal active, block
        if active is None:
            return
        r = res[active]
        txt = "\n".join(block)
        r.raw += txt
        m = re.search(r"\*\* (\d+) of (\d+) failed", txt)
        if m:
            r.checks_total = int(m.group(2))
        m = re.search(r"Verification Time: ([0-9.]+)s", txt)
        if m:
            r.time_s = float(m.group(1))
        if "VERIFICATION:- SUCCESSFUL" in txt:
            r.status = "ok"
        elif "VERIFICATION:- FAILED" in txt:
            r.status = "failed"
            fm = re.search(r"Failed Checks:(.*?)(?:\nVERIFICATION:- FAILED)", txt, re.S)
            if fm:
                # each failed check: description ... \n File: ...
                parts = re.split(r"\n(?=Failed Checks: )", "Failed Checks:" + fm.group(1))
                for p in parts:
                    p = p[len("Failed Checks:"):].strip()
                    if p:
                        r.failed_checks.append(re.sub(r"\s+", " ", p))
        m = re.search(r"\*\* (\d+) of (\d+) cover properties satisfied", txt)
        if m and int(m.group(1)) != int(m.group(2)):
            r.cover_ok = False
        if "CBMC timed out" in txt or "timed out" in txt.lower():
            r.status = "timeout"
        elif "CBMC failed" in txt or "out of memory" in txt.lower():
            r.status = "error"
        block = []
        active = None

    for ln in lines:
        m = re.match(r"(?:Thread (\d+): )?Checking harness (\S+?)\.\.\.", ln)
        if m:
            t = m.group(1) or "0"
            h = short(m.group(2))
            flush() if (m.group(1) is None) else None
            cur_by_thread[t] = h
            res.setdefault(h, HResult(h))
            if m.group(1) is None:
                active = h
                block = []
            continue
        m = re.match(r"Thread (\d+): ?(.*)$", ln)
        if m:
            t, rest = m.group(1), m.group(2)
            if rest.strip() == "":
                flush()
                active = cur_by_thread.get(t)
                block = []
            else:
                if t in cur_by_thread:
                    res[cur_by_thread[t]].raw += rest + "\n"
            continue
        if ln.startswith("Manual Harness Summary") or ln.startswith("Complete - "):
            flush()
            continue
        if active is not None:
            block.append(ln)
    flush()
    return res


def run_batch(dst: str, harnesses: List[str], jobs: int, mem_class: bool, timeout: int, log_path: str,
              extra: List[str] = None, harness_timeout: int = 600) -> Dict[str, HResult]:
    if not harnesses:
        return {}
    cmd = ["cargo", "kani"] + KANI_FLAGS
    for h in harnesses:
        cmd += ["--harness", h]
    cmd += ["--exact", "-j", str(jobs), "--output-format", "terse", "--harness-timeout", f"{harness_timeout}s"]
    if extra:
        cmd += extra
    if mem_class:
        cmd += CBMC_M
    t0 = time.time()
    raw_path = log_path + f".{int(t0 * 1000) % 100000000}.raw"
    timed_out = False
    with open(raw_path, "w") as f:
        f.write("$ " + " ".join(cmd) + "\n")
        f.flush()
        p = subprocess.Popen(cmd, cwd=dst, env=ENV, stdout=f, stderr=subprocess.STDOUT, start_new_session=True)
        try:
            p.wait(timeout=timeout)
        except subprocess.TimeoutExpired:
            timed_out = True
            import signal
            try:
                os.killpg(p.pid, signal.SIGKILL)
            except ProcessLookupError:
                pass
            p.wait()
    out = open(raw_path, errors="replace").read()
    with open(log_path, "a") as f:
        f.write(out + f"\n[wall {time.time() - t0:.1f}s timed_out={timed_out}]\n")
    os.unlink(raw_path)
    if "error: could not compile" in out or re.search(r"^error(\[E\d+\])?:", out, re.M):
        if "Checking harness" not in out:
            raise Undecided("the annotated copy does not compile under Kani:\n" + "\n".join(
                l for l in out.split("\n") if not l.startswith("warning"))[-6000:])
    res = parse_terse(out)
    harnesses = [short(h) for h in harnesses]
    for h in harnesses:
        if h not in res:
            res[h] = HResult(h, status="timeout" if timed_out else "missing")
        elif res[h].status == "missing":
            res[h].status = "timeout" if timed_out else "error"
    return res
