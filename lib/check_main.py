import argparse
import hashlib
import json
import os
import random
import re
import shutil
import sys
import time
import traceback

import scratch
from scratch import Undecided, VERIF

KANI_PROPS = ["C01", "C02", "C03", "C04", "C05", "C06", "C07", "C08", "C09", "C11", "C12", "C14", "C15", "C16", "C17", "C18", "C19"]
VERUS_PROPS = ["C01", "C02", "C03", "C04", "C05", "C06", "C07", "C08", "C09", "C10", "C11", "C12", "C13", "C14", "C15", "C16", "C17", "C18", "C19", "C20"]
CLAIMED = ["C01", "C02", "C03", "C04", "C05", "C06", "C07", "C08", "C09", "C10", "C11", "C12", "C13", "C14", "C15", "C16", "C17", "C18", "C19", "C20"]

TRUSTED_BASE = [
    "Kani 0.68 MIR->goto translation, CBMC 6.11 (+CaDiCaL; z3 4.8.12 for the four DIV/IDIV contracts)",
    "LALRPOP 0.19.12 generated LR driver: reduces bottom-up, left to right, calling the __actionN named in its production comment (exercised by every replay, not proved)",
    "regex-based lexer of the generated parsers tokenises as the terminals say",
    "harness devices: uninitialised (arbitrary) 1 MB heap / 1-byte fenced memory, forged never-used &mut Context, probe functions standing for L1 contracts (kani::stub only for the 10 string fns and 8 AX adjusts)",
    "i8086_spec.rs is hand-transcribed from the Intel 8086 Family User's Manual; flags the manual leaves undefined are masked (AF after logic/shift, OF/SF/ZF/PF after AAA/AAS, OF for counts != 1)",
    "machine arithmetic: bit-precise, overflow = failure (debug profile, -C overflow-checks=on)",
]


def load_findings():
    p = os.path.join(VERIF, "known_findings.jsonl")
    out = []
    if os.path.exists(p):
        for ln in open(p):
            ln = ln.strip()
            if ln and not ln.startswith("#"):
                out.append(json.loads(ln))
    return out


def jobs_default():
    try:
        return max(2, min(14, int(os.environ.get("VERIF_JOBS", os.cpu_count() - 2))))
    except Exception:
        return 8


class Report:
    def __init__(self, pid, tier, seed):
        self.pid, self.tier, self.seed = pid, tier, seed
        self.obligations = []        # dicts: id, unit, clause, engine, backend, status, solver_s, target
        self.violations = []         # dicts
        self.known = []
        self.undecided = []
        self.notes = []
        self.functions = set()
        self.assumptions = list(TRUSTED_BASE)
        self.bounded = []
        self.t0 = time.time()
        self.extra = {}

    def add(self, unit, clause, engine, backend, status, solver_s, target, klass=""):
        self.obligations.append({"id": f"{unit}/{clause}", "unit": unit, "clause": clause, "engine": engine,
                                 "backend": backend, "status": status, "solver_s": round(solver_s, 2),
                                 "target": target, "class": klass})


def write_evidence(rep: Report, checker_cmd: str):
    evdir = os.environ.get("VERIF_EVIDENCE_DIR", os.path.join(VERIF, "evidence"))
    os.makedirs(evdir, exist_ok=True)
    obl = [o for o in rep.obligations if o["status"] != "bounded-ok"]
    nb = len(rep.obligations) - len(obl)
    n = len(obl)
    dis = sum(1 for o in obl if o["status"] == "discharged")
    by_engine = {}
    for o in obl:
        k = f"{o['engine']}/{o['backend']}"
        by_engine.setdefault(k, {"obligations": 0, "discharged": 0, "solver_s": 0.0})
        by_engine[k]["obligations"] += 1
        by_engine[k]["discharged"] += o["status"] == "discharged"
    units = {}
    for o in obl:
        if o["unit"] not in units:
            units[o["unit"]] = o["solver_s"]
            k = f"{o['engine']}/{o['backend']}"
            by_engine[k]["solver_s"] = round(by_engine[k]["solver_s"] + o["solver_s"], 1)     # one solver run per unit
    solver_total = round(sum(units.values()), 1)
    if not rep.extra.get("explanation"):
        try:
            man = json.load(open(os.path.join(VERIF, "MANIFEST.json")))
            me = [c for c in man.get("checks", []) if c.get("property_id") == rep.pid]
            if me:
                rep.extra["explanation"] = me[0]["level_claimed"]["text"] + "  NOT COVERED / TRUSTED: " + me[0].get("level_note", "")
        except Exception:
            pass
    rnd = random.Random(rep.seed)
    samples = []
    pool = [o for o in obl]
    rnd.shuffle(pool)
    for o in pool[:3]:
        samples.append({"obligation": o["id"], "target": o["target"], "engine": o["engine"], "backend": o["backend"],
                        "status": o["status"], "class": o["class"],
                        "clause_text": rep.extra.get("clause_text", {}).get(o["id"], "")})
    ev = {
        "property_id": rep.pid,
        "tier": rep.tier,
        "seed": rep.seed,
        "level": "proof",
        "coverage": {
            "obligations": n,
            "discharged": dis,
            "checker_cmd": checker_cmd,
            "trusted_base": rep.assumptions,
            "samples": samples,
            "explanation": rep.extra.get("explanation", ""),
            "functions_under_contract": sorted(rep.functions),
            "per_engine": by_engine,
            "solver_s_total": solver_total,
            "units": len(units),
            "refuted": [o["id"] for o in obl if o["status"] == "refuted"],
            "undecided": rep.undecided,
            "known_findings": rep.known,
            "bounded": rep.bounded,
            "bounded_checks_passed_not_counted_as_proved": nb,
            "notes": rep.notes,
            "obligation_list": [[o["id"], o["engine"] + "/" + o["backend"], o["status"], o["solver_s"]] for o in obl],
        },
        "assumptions": rep.assumptions,
        "wall_s": round(time.time() - rep.t0, 1),
        "violations": len(rep.violations),
    }
    ev["coverage"].update({k: v for k, v in rep.extra.items() if k not in ("clause_text", "explanation")})
    if n == 0:
        # nothing generated: not evidence of anything
        ev["coverage"]["obligations"] = 0
        ev["coverage"]["discharged"] = 0
    with open(os.path.join(evdir, f"{rep.pid}.json"), "w") as f:
        json.dump(ev, f, indent=1)


def run_property(pid: str, tier: str, seed: int) -> int:
    import kani_engine
    import replay as replay_mod
    rep = Report(pid, tier, seed)
    os.environ["VERIF_TIER_EFFECTIVE"] = tier
    findings = load_findings()
    root = scratch.make_copy(pid)
    dst = os.path.join(root, "repo")
    log = os.path.join(root, "kani.log")
    keep_log = os.path.join(VERIF, ".cache", "logs")
    os.makedirs(keep_log, exist_ok=True)
    code = 0
    checker_cmds = []
    try:
        # ------------------------------------------------------------ Kani part
        if pid in KANI_PROPS:
            kb = kani_engine.KaniBuild(dst, findings)
            kb.build()
            if kb.skipped:
                raise Undecided("productions under a covered nonterminal have no contract template: " + "; ".join(kb.skipped[:5]))
            census_check(kb, rep)
            sel = select_units(kb, pid, tier, seed, rep)
            checker_cmds.append("cargo kani -Z function-contracts -Z stubbing --harness <unit> [--solver z3 | --cbmc-args --arrays-uf-always] on the annotated scratch copy of /repo")
            res = kb.run(sel, jobs_default(), log)
            evaluate_kani(kb, sel, res, rep, pid, log, root)
        # ----------------------------------------------------------- Verus part
        if pid in VERUS_PROPS:
            import verus_engine
            checker_cmds.append("verus <unit>.rs --output-json --time (functions cut verbatim from the scratch copy)")
            verus_engine.run_for_property(pid, tier, seed, dst, root, rep, findings)
        if pid in ("C11", "C10"):
            text_spec_selfcheck(dst, rep)
        if not rep.obligations:
            raise Undecided("no obligation was generated for this property")
    except Undecided as e:
        rep.undecided.append(str(e)[:3000])
    except Exception:
        rep.undecided.append("internal error: " + traceback.format_exc()[-3000:])
    finally:
        try:
            if os.path.exists(log):
                shutil.copy(log, os.path.join(keep_log, f"{pid}.kani.log"))
        except Exception:
            pass
        scratch.remove_copy(root)
    write_evidence(rep, " ; ".join(checker_cmds) or "n/a")
    for k in rep.known:
        print(f"KNOWN-FINDING: property={pid} {k['obligation']} {k['what']} witness={json.dumps(k['witness'], sort_keys=True)}")
    for v in rep.violations:
        tail = "" if v.get("confirmed") else " no-failing-input-found"
        print(f"VIOLATION property={pid} replay={v['path']} obligation={v['obligation']}{tail}")
    n = len(rep.obligations)
    dis = sum(1 for o in rep.obligations if o["status"] == "discharged")
    nb = sum(1 for o in rep.obligations if o["status"] == "bounded-ok")
    n -= nb
    print(f"[{pid}/{tier}] obligations={n} discharged={dis} bounded(not counted)={nb} refuted={len(rep.violations)} known={len(rep.known)} "
          f"undecided={len(rep.undecided)} wall={time.time() - rep.t0:.0f}s")
    if rep.violations:
        return 1
    if rep.undecided:
        for u in rep.undecided:
            print("UNDECIDED:", u.replace("\n", "\n    ")[:2500])
        return 2
    return 0


def text_spec_selfcheck(dst, rep):
    """The token-view specification of the emitted lines is written from the interpreter's syntax by hand (symbol tables of
    lib/verus_engine.py).  Self-check, like the s_* units of the arithmetic oracle: for every emitting production a source line of
    its form goes through the REAL assembler, and the line it emits through the REAL Interpreter::parse; a syntax error there
    means the specification (or the assembler) no longer speaks the interpreter's syntax.  One sample per production: this
    validates the specification, it proves nothing and is not counted as an obligation."""
    import re as _re
    import replay as replay_mod
    import text_replay
    import verus_engine
    if not verus_engine.EM_INFO:
        return
    tool = replay_mod.build_tool(dst)
    n = bad = 0
    for name, (p, a, units, prods) in sorted(verus_engine.EM_INFO.items()):
        if units is None:
            continue
        b = text_replay.build(p, a, units, prods)
        if b is None:
            continue
        src, exp = b
        obs = replay_mod.ask(tool, ["asm " + src.replace("\n", "\\n")])[0]
        if not isinstance(obs, dict) or not obs.get("ok") or not obs.get("code"):
            continue          # the sample is not a program of this form (nothing learnt)
        line = obs["code"][-1]
        o = replay_mod.ask(tool, ["run " + " ".join(["0"] * 14) + " 0 3 lb 16 lw 32 @tgt 1 | " + line + " ; "])[0]
        out = str(o.get("outcome", o)) if isinstance(o, dict) else str(o)
        n += 1
        if _re.search(r"Unrecognized token `[^`]+`|Invalid token|Unrecognized EOF", out):
            bad += 1
            rep.undecided.append(f"text specification self-check: `{src.splitlines()[-1]}` is lowered to `{line}`, which the real interpreter does not parse ({out[:120]}): "
                                 f"the token-view specification of production `{p.sig}` (or the assembler) no longer speaks the interpreter's syntax")
    # the data lines: one directive of every form through the real assembler, every emitted line through the real data loader
    dsrc = 'set 2\na: db 5\nb: db -3\nc: db [4]\nd: db [7,2]\ne: db "hi"\nf: dw 300\ng: dw -2\nh: dw [3]\ni: dw [9,2]\nj: dw "ok"'
    dobs = replay_mod.ask(tool, ["asm " + dsrc.replace("\n", "\\n")])[0]
    dn = dbad = 0
    if isinstance(dobs, dict) and dobs.get("ok"):
        for line in dobs.get("data") or []:
            o = replay_mod.ask(tool, ["data " + line])[0]
            dn += 1
            if not (isinstance(o, dict) and o.get("ok")):
                dbad += 1
                rep.undecided.append(f"text specification self-check: the data line `{line}` emitted by the real assembler is refused by the real data loader ({str(o)[:120]})")
    rep.extra["data_line_selfcheck"] = {"lines_sampled": dn, "lines_the_real_loader_refused": dbad}
    rep.extra["text_spec_selfcheck"] = {"productions_sampled": n, "lines_the_real_interpreter_did_not_parse": bad,
                                        "what": "one source line per emitting production through the real assembler and the real Interpreter::parse (validates the hand-written token-view specification; not an obligation)"}


def census_check(kb, rep):
    p = os.path.join(VERIF, "contracts", "expected_units.json")
    names = sorted(n for n, u in kb.units.items() if u.twin_of is None)
    if os.path.exists(p):
        exp = json.load(open(p))
        missing = [n for n in exp if n not in names]
        new = [n for n in names if n not in exp]
        if missing:
            # a unit that used to exist is gone: the property is not decided by the remaining units (exit 2), but they are still
            # run, and a violation among them is still a violation (exit 1 takes precedence).  `exp` maps unit -> properties served;
            # a unit that served other properties only does not concern this check.
            mine = [n for n in missing if not isinstance(exp, dict) or rep.pid in exp[n]]
            if mine:
                rep.undecided.append("units under contract on the pinned tree no longer generated (lost anchor / removed production): "
                                     + ", ".join(mine[:8]))
            other = [n for n in missing if n not in mine]
            if other:
                rep.notes.append("units of other properties no longer generated: " + ", ".join(other[:8]))
        if new:
            rep.notes.append("new units not in the committed census: " + ", ".join(new[:8]))
    rep.extra["census_units"] = len(names)


def select_units(kb, pid, tier, seed, rep):
    import kani_engine
    sel = []
    for n, u in kb.units.items():
        if u.twin_of is not None:
            f = u.finding
            if f["property"] == pid or pid in f.get("also", []):
                sel.append(n)
            continue
        if kani_engine.unit_serves(u, pid):
            sel.append(n)
    if pid == "C04" and tier == "quick":
        # the frame clause (only m, m+1 written) of the ~80 memory-operand productions is discharged under C01/C02/C05
        # in their quick tier; C04's quick tier keeps its primary units, the thorough tier adds those frame clauses
        drop = {n for n in sel if pid not in kb.units[n].props}
        rep.notes.append(f"quick tier: {len(drop)} memory-operand production units (mem.frame clause) left to the thorough tier")
        sel = [n for n in sel if n not in drop]
    return sel


def evaluate_kani(kb, sel, res, rep, pid, log, root):
    import kani_engine
    import replay as replay_mod
    v = res.get("vacuity_must_fail")
    if v is not None and v.status != "failed":
        raise Undecided("vacuity probe: the verifier did not refute a deliberately false assertion (status %s)" % v.status)
    ctext = {}
    for n in sel:
        u = kb.units[n]
        r = res.get(n)
        backend = {"P": "cbmc-cadical", "M": "cbmc-smt2-z3(arrays)", "S": "cbmc-cadical+arrays-uf", "Z": "cbmc-smt2-z3"}[u.klass]
        actual = getattr(r, "solver", None)
        if actual:
            backend = {"z3": "cbmc-smt2-z3(arrays)", "cadical-uf": "cbmc-cadical+arrays-uf", "cadical": "cbmc-cadical"}.get(actual, backend)
        rep.functions.add(u.target)
        if r is None or r.status in ("timeout", "error", "missing"):
            st = r.status if r else "missing"
            if u.twin_of is not None and u.finding.get("exact"):
                rep.extra.setdefault("region_exact", {})[f"{u.twin_of}/{u.finding['clause']}"] = None
            if u.twin_of is None:
                rep.undecided.append(f"{n}: verifier {st} ({u.target})")
                for c in u.clauses + ["total"]:
                    rep.add(n, c, "kani", backend, "undecided", r.time_s if r else 0, u.target, u.klass)
            continue
        failed = [kani_engine.clause_of(fc) for fc in r.failed_checks]
        if u.twin_of is not None and u.finding.get("exact"):
            # region-exactness twin: REGION ==> clause violated.  ok = the listed region is exact (tight)
            rep.extra.setdefault("region_exact", {})[f"{u.twin_of}/{u.finding['clause']}"] = (r.status == "ok")
            continue
        if u.twin_of is not None:
            f = u.finding
            if r.status == "failed" and f["clause"] in failed:
                rep.known.append({"obligation": f"{u.twin_of}/{f['clause']}", "what": f["what"], "witness": f["witness"],
                                  "region": f["region"], "confirmed_this_run_by": n})
            else:
                rep.notes.append(f"listed finding {u.twin_of}/{f['clause']} no longer reproduces at its witness (fixed?): no KNOWN-FINDING line")
            continue
        if not r.cover_ok:
            rep.undecided.append(f"{n}: reachability cover not satisfied (vacuous harness)")
        if u.bounded and not any(b.get("unit") == n for b in rep.bounded):
            rep.bounded.append({"unit": n, "target": u.target, "bound": u.bounded})
        mine = [c for c in u.clauses if pid in kani_engine.clause_props(u, c)]
        okst = "bounded-ok" if u.bounded else "discharged"
        for c in mine:
            t = kb.clause_text.get(n, {}).get(c)
            if not t and c.startswith("reg."):
                t = f"vm.arch.{c[4:]} == exp.{c[4:]}   (exp = the register file before the call, updated exactly as the production's contract says; every other register must be unchanged)"
            if t:
                ctext[f"{n}/{c}"] = t
            rep.add(n, c, "kani", backend, "refuted" if c in failed else okst, r.time_s, u.target, u.klass)
        tot_fail = [c for c in failed if c not in u.clauses]
        if pid in kani_engine.clause_props(u, "total"):
            rep.add(n, "total", "kani", backend, "refuted" if tot_fail else okst, r.time_s, u.target, u.klass)
        else:
            tot_fail = []
        relevant = [c for c in set(failed) if c in mine] + sorted(set(tot_fail))
        if relevant:
            # property-directed traces for the first refuted units only (each costs a solver call);
            # later ones are still reported, with the verifier's output, as no-failing-input-found
            rep.extra["traced_units"] = rep.extra.get("traced_units", 0) + 1
            cex = kb.counterexample(u, log) if rep.extra["traced_units"] <= 6 else {"traces": [], "error": "trace budget of this run used up"}
            by_clause = {t["clause"]: t for t in cex.get("traces", [])}
            for c in sorted(relevant):
                obl = f"{n}/{c if c in u.clauses else 'total'}"
                t = by_clause.get(c, {})
                path = replay_mod.record(pid, u, c, t, cex, r, kb.dst)
                rep.violations.append({"obligation": obl, "path": path["path"], "confirmed": path.get("confirmed")})
    if kb.fallback:
        rep.notes.append("z3 timed out after 240 s on " + ", ".join(kb.fallback) + "; decided by CaDiCaL with --arrays-uf-always instead")
    rep.extra.setdefault("clause_text", {}).update(ctext)
    rep.extra["annotation_diff_sha256"] = hashlib.sha256(kb.diff.encode()).hexdigest()
    rep.extra["annotation_diff_added_lines"] = sum(1 for l in kb.diff.split("\n") if l.startswith("+") and not l.startswith("+++"))


def main(argv):
    if not argv:
        print(__doc__ or "usage: check <property> [--tier quick|thorough]")
        return 2
    if argv[0] == "replay":
        import replay as replay_mod
        return replay_mod.replay_cmd(argv[1])
    if argv[0] == "list":
        import verus_engine
        try:
            census = json.load(open(os.path.join(VERIF, "contracts", "expected_units.json")))
        except Exception:
            census = {}
        for pid in CLAIMED:
            ku = sorted(n for n, props in census.items() if pid in props)
            vu = sorted(u for u, d in verus_engine.UNITS.items() if pid in d["props"])
            print(f"{pid}: {len(ku)} Kani units (pinned census; e.g. {', '.join(ku[:3])}{' ...' if len(ku) > 3 else ''}); Verus units: {', '.join(vu) or '-'}")
        print("not applicable:", ", ".join(x["property_id"] for x in json.load(open(os.path.join(VERIF, "MANIFEST.json")))["not_applicable"]))
        return 0
    if argv[0] == "clean":
        shutil.rmtree(os.path.join(VERIF, ".cache"), ignore_errors=True)
        shutil.rmtree(scratch.SCRATCH_ROOT, ignore_errors=True)
        return 0
    ap = argparse.ArgumentParser()
    ap.add_argument("pid")
    ap.add_argument("--tier", default=os.environ.get("VERIF_TIER", "quick"))
    a = ap.parse_args(argv)
    seed = int(os.environ.get("VERIF_SEED", "0") or 0)
    if a.pid not in CLAIMED:
        print(f"{a.pid} is not claimed (see MANIFEST.json not_applicable)")
        return 2
    rc = run_property(a.pid, a.tier if a.tier in ("quick", "thorough") else "quick", seed)
    return rc
