"""Verus engine (filled in below): single-file extraction of real functions + contracts."""


def run_for_property(pid, tier, seed, dst, root, rep, findings):
    return
