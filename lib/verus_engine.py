"""Verus engine: single-file units (functions cut verbatim from the scratch copy + contracts)."""
import json
import os
import re
import subprocess
import time

import verus_extract
from scratch import VERIF, Undecided

CDIR = os.path.join(VERIF, "contracts", "verus")

# unit -> (template, properties served, {fn name -> properties} overrides)
PRELUDE_FNS = {"make_valid_address|calculate_from_offset|inc_addr|separate_bytes": ["C04", "C09"]}
UNITS = {
    "loader": {"tpl": "loader.rs", "props": ["C12", "C09", "C04", "C10"],     # C10: the loader's side of "every data line is accepted" (its productions
               "fn_props": {**PRELUDE_FNS, "ld_.*": ["C12", "C09", "C10"]}},   # never refuse; their token shapes are anchors of this unit)
    "mapper": {"tpl": "mapper.rs", "props": ["C16", "C20"],      # C20: the prompt names the instruction's line through this map
               "fn_props": {**PRELUDE_FNS, ".*": ["C16", "C20"]}},
    "lexer": {"tpl": "lexer.rs", "props": ["C16", "C09"],
              "fn_props": {**PRELUDE_FNS, "get_line|get_newline_before|get_err_pos|lemma_.*": ["C16", "C09"], "preprocess|note_cite|new_real": ["C16", "C09"]},
              "assumes": ["unit lexer: ASSUMED contract of std's str::char_indices / str::len (rewrite R16: the k-th item is the byte offset and the value of the k-th character; offsets strictly increasing and inside the text; a text is at most isize::MAX bytes). With it LexerHelper::new is PROVED to build the increasing list of the newline characters' byte offsets (`wf`), for texts of any length and any characters; the bounded Kani unit b_lexer_new runs the real std code on 31 strings incl. multi-byte characters (cross-check of exactly this assumption)",
                          "unit lexer: preprocess(): the assembler, its context / output constructors and LexerHelper::new are stubs recording the refused token's start and the helper's newline list in a ghost trace (the stub of `new` carries the contract proved of the real one); assumed: LALRPOP reports positions as offsets into the text it was given; message text opaque (R3), source slice unchecked (R9)",
                          "unit lexer: rewrite R13 (`for (i, v) in <place>.iter().enumerate()` -> index loop; <place> is borrowed immutably by the original loop)"]},
    "numbers": {"tpl": "numbers.rs", "props": ["C14", "C09", "C12", "C17", "C01", "C05", "C11"],
                "fn_props": {**PRELUDE_FNS, "nm_pp_.*": ["C14", "C09"], "nm_it_.*": ["C01", "C05", "C09"], "nm_ld_.*": ["C12", "C09"], "nm_pr_.*": ["C17", "C09"]},
                "assumes": ["unit numbers: ASSUMED contract of std's {u8,u16,i8,i16,u32,usize}::from_str_radix: for a well-formed digit string (what the literal token's regular expression admits) the result is Ok(v) iff the mathematical value of the text fits the type, and v is that value; the value of a text is an uninterpreted function. The bounded Kani units b_pp_* run the real from_str_radix on every literal of bounded length (cross-check of this assumption)",
                            "unit numbers: the token text is ASCII with at least one digit after its prefix (the token's regular expression; the generated lexer is trusted)"]},
    "printer": {"tpl": "printer.rs", "props": ["C17", "C09"],
                "fn_props": {**PRELUDE_FNS, "pr_.*|get_flag_state|lemma_flag_bits": ["C17", "C09"]}},
    "interrupts": {"tpl": "interrupts.rs", "props": ["C18", "C09"],
                   "fn_props": {**PRELUDE_FNS, "int_13|store_input_line|int_21|get_byte_reg|set_byte_reg|lemma_halves": ["C18", "C09"]}},
    "lemmas": {"tpl": "lemmas.rs", "props": ["C05", "C07", "C12"],
               "fn_props": {**PRELUDE_FNS, "lemma_rep.*|bridge_rep.*|bridge_string_plain|verif_fnptr_apply": ["C07"], "lemma_push.*|lemma_sp_casts|lemma_word|bridge_p.*|get_word_reg_val|set_word_reg_val": ["C05"], "lemma_contiguous|lemma_len": ["C12"]}},
    "transfer": {"tpl": "transfer.rs", "props": ["C08", "C14", "C04", "C12", "C18", "C09", "C10"],
                 "fn_props": {**PRELUDE_FNS, "it_call|it_ret": ["C08", "C14", "C09", "C10"], "lemma_nested.*|lemma_ret_resumes.*|bridge_.*": ["C08"], "it_jumps_loops": ["C08", "C14", "C09", "C10"],
                              "it_int": ["C14", "C18", "C09", "C10"], "it_byte_label|it_word_label": ["C04", "C12", "C14", "C09", "C10"], "get_type": ["C08", "C14"]}},
    "assembler": {"tpl": "assembler.rs", "props": ["C08", "C12", "C14", "C16", "C18", "C01", "C02", "C03", "C04", "C05", "C06", "C07", "C11", "C17", "C19", "C13", "C10"],
                  "assumes": ["unit assembler: ASSUMED contract of the nested PreprocessorParser::parse inside macro_use = the contract of macro_use itself one nesting level down (freeze/release balanced, an enclosing use keeps its position, expansion set restored, macro table unchanged, code only appended): induction on the nesting depth; that depth is bounded (termination) is not proved",
                              "unit assembler: assumed of the nested parse: an UnrecognizedToken error with an empty token text (a diagnostic built by the error! macro) carries at least its one message (macro_use indexes expected[0] in that case)",
                              "unit assembler: rewrite R15 (String::replace -> uninterpreted text): which text is expanded is not modelled (C13 not claimed); R8 on field paths (token.1 == \"\")",
                              "unit assembler: assumed: a &str query / removal on HashSet<String> acts on the String with the same characters (two axioms, as for HashMap)"],
                  "fn_props": {**PRELUDE_FNS, "em_\\d+": ["C08", "C16"], "as_call|as_jmps_loops": ["C08", "C14", "C10"], "as_proc_def|as_label": ["C08", "C14"],
                               "as_procedure": ["C08", "C16"], "as_mem_.*": ["C04", "C11"], "as_string_.*": ["C07", "C11"], "as_macro_use": ["C16", "C14", "C19", "C13"], "as_macro_arg_.*": ["C13", "C11"], "as_macro_def": ["C13", "C19"], "as_print_mem_len": ["C17", "C14", "C11", "C10"], "glue_em_\\d+": ["C14"], "as_int": ["C14", "C18", "C10"], "as_offset": ["C12", "C14"],
                               "as_byte_label|as_word_label": ["C14", "C10"], "as_unsupported|as_offset_as_byte": ["C14"], "as_d[bw]_.*|as_set|advance_data_counter": ["C12", "C14"], "add_entry": ["C16"], "new|get_type": ["C08", "C14"]}},
    "driver": {"tpl": "driver.rs", "rlimit": 200, "props": ["C07", "C08", "C12", "C14", "C16", "C17", "C18", "C19", "C20", "C09"],
               "fn_props": {**PRELUDE_FNS, "run": ["C08", "C09"], "user_interface": ["C20", "C09"], "note_prompt": ["C20"], "note_lookup|note_cite": ["C16", "C20"], "lemma_least_undefined": ["C19", "C14"],
                            "get_type|get_source_map": ["C08", "C14"]},
               "assumes": [
                   "unit driver: ASSUMED contract of `preprocess` (whole-parse invariant of the assembler: every emitted instruction has a source-map entry, code-label and procedure values <= number of instructions, positions inside the text < 2^31). Its preservation is PROVED for each of the 126 productions under contract in unit `assembler` (clause asm.output_invariant_preserved); what stays assumed is the induction over the LR parse and the productions not under contract (macro definition / use)",
                   "unit driver: ASSUMED contract of `Interpreter::parse` (a returned jump target is a code-label value, a procedure entry or a return position; symbol tables unchanged; the line \"hlt\" is answered HALT). PROVED for call / ret / jumps_loops in unit `transfer` (clause it.targets_stay_inside_the_program) and for hlt in Kani unit h_control_*; every other production's Kani unit pins its returned State (none is JMP) and is run with a context whose three tables (two HashMaps, one Vec) are arbitrary bit patterns, so any use of them is an invalid-pointer failure of that unit: those productions neither read nor change the symbol tables or the call stack",
                   "unit driver: stubs of DataParser::parse, PrintParser::parse, int_13, int_21 only record the call in the ghost trace (their behaviour is under contract in units loader / printer / interrupts); the stub contract of get_err_pos (bounds ordered and containing the position, line = a function of helper and position) is PROVED of the real get_err_pos / LexerHelper::get_line in unit `lexer` for every newline list; what stays assumed there is that LexerHelper::new yields the increasing list of newline byte positions (bounded Kani unit b_lexer_new); Regex / String text helpers unspecified",
                   "unit driver: assumed: a &str lookup in HashMap<String,_> finds the String with the same characters; Strings with equal characters are equal; str::trim / to_ascii_lowercase are uninterpreted functions; std::process::exit does not return; vstd's BTreeSet traversal spec with obeys_cmp for (usize, String)",
                   "unit driver: rewrites R7-R10 (ghost arguments / proof hints, String == literal, source slices in messages logged as opaque values: the slicing itself is NOT checked, local `int` renamed)",
               ]},
}

VERUS_TRUSTED = [
    "Verus 0.2026.09.13 + its Z3; vstd's assumed specifications for Vec, HashMap<String,_> (obeys_key_model::<String>()), integer conversions",
    "assumed: <usize as Into<usize>>::into is the identity (one external_body axiom; vstd has no spec for that instance)",
    "inc_addr and separate_bytes are the REAL functions in every Verus unit (generic `+` through vstd AddSpec; two bit_vector hints) -- no cross-engine assumption any more; assumed of vstd: usize obeys AddSpec with add_spec = +",
    "assumed (prelude): documented meaning of u8/u16/u32::overflowing_add/sub, u16::swap_bytes, i8/i16::wrapping_neg (std functions without a vstd specification; used by no function on the pinned tree)",
    "assumed (prelude): str::trim_end / trim_start return an UNINTERPRETED function of the text (used by no function on the pinned tree): code that starts to use them is verified with nothing known about the result",
    "extractor rewrites R1-R6 (tuple-pattern parameters, ghost output log for print!, opaque format!, quantified stdin, attributes dropped, named ghost loop iterator)",
]


def fn_spans(text: str):
    """(name, first line, last line, [ensures clause (line, text)]) for every fn/proof fn inside the file"""
    out = []
    lines = text.split("\n")
    for m in re.finditer(r"^[ \t]*(?:pub )?(?:open spec |closed spec |spec |proof |broadcast proof )?fn (\w+)", text, re.M):
        start = text.count("\n", 0, m.start()) + 1
        # find the body's opening brace: first '{' at depth 0 that starts a line or follows the contract
        i = m.end()
        depth = 0
        body_open = None
        while i < len(text):
            c = text[i]
            if c == "/" and text.startswith("//", i):
                i = text.index("\n", i)
                continue
            if c in "([":
                depth += 1
            elif c in ")]":
                depth -= 1
            elif c == "{" and depth == 0:
                # `{` of an `if ... {` inside the contract is at depth 0 as well: the body brace is the one
                # that starts a line (our templates and the extracted bodies guarantee that)
                ls = text.rfind("\n", 0, i) + 1
                if text[ls:i].strip() == "":
                    body_open = i
                    break
            elif c == ";" and depth == 0 and body_open is None and "{" not in text[m.end():i]:
                break
            i += 1
        if body_open is None:
            continue
        try:
            end = verus_extract.match_brace(text, body_open)
        except Exception:
            continue
        last = text.count("\n", 0, end) + 1
        head = text[m.start():body_open]
        clauses = []
        em = re.search(r"\bensures\b", head)
        if em:
            seg = head[em.end():]
            base_line = text.count("\n", 0, m.start() + em.end()) + 1
            cur, d, ln0 = "", 0, base_line
            ln = base_line
            in_comment = False
            prev = ""
            for ch in seg:
                if ch == "/" and prev == "/":
                    in_comment = True
                    cur = cur[:-1]
                prev = ch
                if ch == "\n":
                    in_comment = False
                if in_comment:
                    continue
                if ch in "([{":
                    d += 1
                elif ch in ")]}":
                    d -= 1
                if ch == "\n":
                    ln += 1
                if ch == "," and d == 0:
                    if cur.strip():
                        clauses.append((ln0, ln, re.sub(r"\s+", " ", cur.strip())))
                    cur = ""
                    ln0 = ln
                else:
                    if not cur.strip():
                        ln0 = ln
                    cur += ch
            if cur.strip():
                clauses.append((ln0, ln, re.sub(r"\s+", " ", cur.strip())))
        kind = "proof" if re.search(r"proof fn", text[m.start():m.end()]) else ("spec" if "spec fn" in text[m.start():m.end()] else "exec")
        pre = text[max(0, m.start() - 200):m.start()]
        if re.search(r"#\[verifier::external_body\]\s*(//[^\n]*\n\s*)*$", pre):
            kind = "assumed"
        out.append({"name": m.group(1), "start": start, "end": last, "clauses": clauses, "kind": kind})
    return out


EMIT_CONTRACT = """    requires old(context).mapper.v_next() < usize::MAX,
    ensures
        // exactly one instruction is appended, after everything emitted before
        final(out).code@.len() == old(out).code@.len() + 1,
        final(out).code@.subrange(0, old(out).code@.len() as int) == old(out).code@,
        final(out).data@ == old(out).data@,
        // and it is associated with the position of the production (or of the outermost macro use while locked)
        final(context).mapper.v_map() == old(context).mapper.v_map().insert(old(context).mapper.v_next(),
            if old(context).mapper.v_lock() != 0 { old(context).mapper.v_last() } else { %s }),
        final(context).mapper.v_next() == old(context).mapper.v_next() + 1,
        final(context).mapper.v_lock() == old(context).mapper.v_lock(),
        // the symbol tables are untouched, so a label defined next denotes the following instruction
        final(context).label_map@ == old(context).label_map@, final(context).fn_map@ == old(context).fn_map@,
        final(context).data_counter == old(context).data_counter,
        asm_inv(old(context), old(out)) ==> asm_inv(final(context), final(out)), //# C08,C16 asm.output_invariant_preserved
"""


def assembler_emitters(ex) -> str:
    """one //@action per assembler production whose block is `out.code.push(..); context.mapper.add_entry(start|end);`
    (found by shape in the production table of THIS run), all under the same emission contract"""
    rel = "src/lib/preprocessor/preprocessor.rs"
    t, acts, prods = ex.table(rel)
    out = []
    seen = set()
    k = 0
    for p in prods:
        a = acts.get(p.user_action)
        if a is None or p.user_action in seen:
            continue
        body = a.body
        if a.ret != "()" or body.count("out.code.push(") != 1 or "context.mapper.add_entry(" not in body:
            continue
        if re.search(r"\b(if|match|for|while|return)\b", body):
            continue
        m = re.search(r"context\.mapper\.add_entry\((\w+)\)", body)
        seen.add(p.user_action)
        k += 1
        contract = EMIT_CONTRACT % m.group(1)
        units, tprops = emitted_text_spec(p, a)
        EM_INFO[f"em_{k}"] = (p, a, units, prods)
        if units is not None:
            eq = f"toks(final(out).code@.last()@) == {ex.tok_expr(units)}"
            alt = xchg_swapped(p, units)
            if alt is not None:
                # XCHG of two registers means the same in either order: both renderings satisfy the property
                eq = f"({eq} || toks(final(out).code@.last()@) == {ex.tok_expr(alt)})"
            contract += (f"        // the emitted line, as the interpreter's lexer sees it, is the source instruction in the interpreter's syntax\n"
                         f"        {eq}, //# {','.join(tprops)} asm.emitted_line_is_the_source_instruction_in_the_interpreters_syntax\n")
            out.append(f"//@action {rel} {p.sig} as em_{k}\n//@contract\n//@fmttoks\n" + contract + "//@end\n")
        else:
            NO_TEXT_SPEC.append(p.sig)
            out.append(f"//@action {rel} {p.sig} as em_{k}\n//@contract\n" + contract + "//@end\n")
        g = immediate_glue(p, a, k)
        if g:
            out.append(g)
    return "\n".join(out), k


NO_TEXT_SPEC = []
EM_INFO = {}      # em_k -> (production, action, spec units, all productions): what a replay of a refuted text obligation needs
# ---- what the lowered line must be (C01-C08, C11, C17, C18), derived from the SOURCE FORM of the production (its signature) and
# the interpreter's syntax, never from the action: mnemonic, then the operands in source order separated by `,`; a memory or
# data-label operand carries its size keyword; constants in decimal.  Names are those of the pinned grammar; a symbol the
# table does not know => no text obligation for that production (listed in the evidence), never an alarm.
MNEMONIC_OF = {"quote_mov": "mov", "quote_xchg": "xchg", "quote_lea": "lea", "quote_not": "not", "quote_pop": "pop", "quote_push": "push",
               "quote_call": "call", "quote_int": "int", "quote_ret": "ret", "quote_repeat": "rep", "quote_print": "print",
               "quote_mem": "mem", "quote_flags": "flags", "quote_reg": "reg", "quote_byte_length": "byte", "quote_word_length": "word",
               "reg_cl": "cl", "cs_reg": "cs"}
TEXT_OPERANDS = {"gen_byte_reg", "gen_word_reg", "gen_reg", "seg_reg", "pop_reg", "memory_addr", "name_string",
                 "string_condition_repeat_opcode", "string_repeat_opcode"}
NUMBER_OPERANDS = {"u_byte_num", "s_byte_num", "u_word_num", "s_word_num", "raw_addr"}
TEXT_PROPS = {"binary_arithmetic": ["C01"], "unary_arithmetic": ["C01", "C03"], "singleton_arithmetic": ["C03"], "binary_logical": ["C02"],
              "not": ["C02"], "shift_rotate": ["C02"], "mov": ["C05"], "xchg": ["C05"], "push": ["C05"], "pop": ["C05"],
              "singleton_data_transfer": ["C05"], "lea": ["C04"], "string": ["C07"], "string_repeat": ["C07"], "string_condition_repeat": ["C07"],
              "jmps_loops": ["C06", "C08"], "call": ["C08"], "ret": ["C08"], "control_supported": ["C08"], "procedure": ["C08"],
              "int": ["C18"], "print_stmt": ["C17"]}


def emitted_text_spec(p, a):
    """(units, properties) for the text an emitting production must produce, or (None, None)"""
    props = TEXT_PROPS.get(p.nt)
    if props is None:
        return None, None
    if p.nt == "procedure":
        return [("L", "ret")], props          # the return implied by the closing brace
    tup = [(pat, ty) for pat, ty in a.params if pat.startswith("(")]
    # <start:@L> / <end:@R> are handed over as (usize, usize, usize) triples in front of / behind the symbols
    if len(tup) == len(p.syms) + 2:
        tup = tup[1:-1]
    elif len(tup) == len(p.syms) + 1:
        tup = tup[1:]
    if len(tup) != len(p.syms):
        return None, None
    def name(i):
        inner = [x.strip() for x in tup[i][0].strip("()").split(",")]
        return inner[1] if len(inner) == 3 and inner[1] != "_" else None
    def is_string(i):
        return re.fullmatch(r"\(\s*usize\s*,\s*(?:alloc::string::)?String\s*,\s*usize\s*\)", tup[i][1].strip()) is not None
    ops = []      # operand groups, each a unit list; "," separates
    cur = []
    head = None
    for i, sy in enumerate(p.syms):
        if i == 0 and sy.startswith("quote_") or (i == 0 and sy in ("string_condition_repeat_opcode", "string_repeat_opcode")):
            if sy in MNEMONIC_OF:
                head = [("L", MNEMONIC_OF[sy])]
            elif is_string(i) and name(i):
                head = [("P", name(i))]
            else:
                return None, None
            continue
        if sy == '","':
            ops.append(cur)
            cur = []
        elif sy.startswith('"') and sy.endswith('"'):
            cur += [("L", t) for t in re.findall(r"[A-Za-z0-9_]+|[^\sA-Za-z0-9_]", sy[1:-1].lower())]
        elif sy in MNEMONIC_OF:
            cur.append(("L", MNEMONIC_OF[sy]))
        elif sy in ("byte_label", "word_label"):
            if not name(i):
                return None, None
            cur += [("L", sy.split("_")[0]), ("P", name(i))]
        elif sy in TEXT_OPERANDS or (sy.startswith("quote_") and is_string(i)):
            if not name(i):
                return None, None
            cur.append(("P", name(i)))
        elif sy in NUMBER_OPERANDS:
            if not name(i):
                return None, None
            cur.append(("N", name(i)))
        else:
            return None, None
    ops.append(cur)
    if head is None:
        return None, None
    if p.nt == "xchg" and len(ops) == 2:
        # XCHG is symmetric and the interpreter knows only the form with the memory operand first
        is_mem = lambda g: any(u == ("L", "byte") or u == ("L", "word") for u in g)
        if is_mem(ops[1]) and not is_mem(ops[0]):
            ops = [ops[1], ops[0]]
    units = list(head)
    for j, g in enumerate(ops):
        if j:
            units.append(("L", ","))
        units += g
    return units, props + ["C11", "C10"]


def xchg_swapped(p, units):
    """for `xchg reg, reg`: the same line with the two registers exchanged"""
    if p.nt != "xchg" or len(units) != 4 or [u[0] for u in units] != ["L", "P", "L", "P"] or units[2] != ("L", ","):
        return None
    return [units[0], units[3], units[2], units[1]]


# destination operand -> width, by the nonterminal that opens the operand list (names of the pinned grammar; an operand the table
# does not know gets no glue obligation, never an alarm)
DEST_BITS = {"gen_byte_reg": 8, "byte_label": 8, "quote_byte_length": 8, "gen_word_reg": 16, "word_label": 16, "quote_word_length": 16,
             "seg_reg": 16}


def immediate_glue(p, a, k):
    """C14 'a constant outside the range of its operand is refused', for the two-operand productions with an immediate source:
    the action runs only on what the immediate's nonterminal delivered, so the obligation is on the connection the grammar makes:
    every value of the Rust type that nonterminal delivers (its number productions are under contract in unit `numbers`: exactly
    the values of that type) must fit the destination's width.  A caller-against-callee check across the LR reduction."""
    if p.nt not in ("mov", "binary_arithmetic", "binary_logical") or len(p.syms) < 4:
        return None
    bits = DEST_BITS.get(p.syms[1])
    if bits is None:
        return None
    # the parameter of the LAST symbol, if it is a number
    last = None
    tup = [ty for pat, ty in a.params if pat.startswith("(")]
    if tup:
        m = re.fullmatch(r"\(\s*usize\s*,\s*(i8|u8|i16|u16|i32|u32)\s*,\s*usize\s*\)", tup[-1].strip())
        if m:
            last = m.group(1)
    if last is None or p.syms[-1] in DEST_BITS or not re.fullmatch(r"[\w]+", p.syms[-1]):
        return None
    lo, hi = (-128, 255) if bits == 8 else (-32768, 65535)
    return (f"// {p.sig}: the immediate arrives as `{last}` (nonterminal {p.syms[-1]}), the destination is {bits} bits wide\n"
            f"pub proof fn glue_em_{k}(n: {last})\n    ensures {lo} <= n <= {hi}, //# C14 operand.every_immediate_the_grammar_delivers_fits_the_destination\n{{\n}}\n")


def call_levels(text: str):
    """exec functions under contract grouped so that no function of a group calls another one of the same group
    (level = depth of the function in the call graph of the file)"""
    spans = [sp for sp in fn_spans(text) if sp["kind"] == "exec"]
    lines = text.split("\n")
    names = {sp["name"] for sp in spans}
    calls = {}
    for sp in spans:
        body = "\n".join(lines[sp["start"]:sp["end"]])
        calls[sp["name"]] = {n for n in names if n != sp["name"] and re.search(r"(?<![A-Za-z0-9_])" + re.escape(n) + r"\s*(::<[^>]*>)?\(", body)}
    level = {}
    def lv(n, seen=()):
        if n in level:
            return level[n]
        if n in seen:
            return 0
        level[n] = 1 + max((lv(c, seen + (n,)) for c in calls[n]), default=-1)
        return level[n]
    for n in names:
        lv(n)
    groups = {}
    for n, l in level.items():
        groups.setdefault(l, set()).add(n)
    return [groups[l] for l in sorted(groups)]


def vacuity_variant(text: str, only):
    """the same file with `false` added as first postcondition of the exec functions in `only`.  Each of them must now FAIL:
    one that still verifies has a contradictory precondition / assumed callee contract / invariant (or never returns), and
    its discharged obligations mean nothing.  (Callers of these functions verify trivially in this variant and are not judged.)"""
    spans = [sp for sp in fn_spans(text) if sp["kind"] == "exec" and sp["name"] in only]
    lines = text.split("\n")
    names = []
    for sp in sorted(spans, key=lambda x: -x["start"]):
        # the contract sits between the signature line and the body's opening brace (a line holding only `{`)
        body_open = None
        for ln in range(sp["start"], sp["end"] + 1):
            if lines[ln - 1].strip() == "{":
                body_open = ln
                break
        if body_open is None:
            continue
        head = list(range(sp["start"], body_open))
        ens = next((ln for ln in head if re.match(r"\s*ensures\b", lines[ln - 1])), None)
        if ens is not None:
            lines[ens - 1] = re.sub(r"\bensures\b", "ensures false,", lines[ens - 1], count=1)
        else:
            dec = next((ln for ln in head if re.match(r"\s*decreases\b", lines[ln - 1])), None)
            at = dec if dec is not None else body_open
            lines.insert(at - 1, "    ensures false,")
        names.append(sp["name"])
    return "\n".join(lines), names


def run_vacuity(unit: str, text: str, vdir: str):
    """-> (list of functions that verify `ensures false` = vacuous, or None when there is no answer; wall seconds; functions probed)"""
    t0 = time.time()
    vacuous, probed = [], []
    for k, group in enumerate(call_levels(text)):
        vt, names = vacuity_variant(text, group)
        probed += names
        path = os.path.join(vdir, f"{unit}_vacuity{k}.rs")
        open(path, "w").write(vt)
        try:
            p = subprocess.run(["verus", path, "--multiple-errors", "400", "--rlimit", "20"], stdout=subprocess.PIPE, stderr=subprocess.PIPE, text=True, timeout=900)
        except subprocess.TimeoutExpired:
            return None, time.time() - t0, probed
        if "verification results::" not in p.stdout + p.stderr:
            return None, time.time() - t0, probed
        spans = [sp for sp in fn_spans(vt) if sp["kind"] == "exec" and sp["name"] in names]
        failing = set()
        for blk in re.split(r"\n(?=error)", p.stderr):
            if not blk.startswith("error") or blk.startswith("error: aborting"):
                continue
            for l in [int(x) for x in re.findall(r"-->\s*\S+?:(\d+):\d+", blk)]:
                for sp in spans:
                    if sp["start"] <= l <= sp["end"]:
                        failing.add(sp["name"])
        vacuous += [n for n in names if n not in failing]
    return vacuous, time.time() - t0, probed


# L0 helpers that are the REAL functions inside Verus units and whose contract a Kani unit discharges bit-precisely as well
L0_FALLBACK = {"separate_bytes": "l0_separate_bytes", "inc_addr": "l0_inc_addr", "get_byte_reg": "l0_get_byte_reg",
               "set_byte_reg": "l0_set_byte_reg", "get_flag_state": "l0_get_flag_state"}


def run_unit(unit: str, dst: str, root: str, _assume=()):
    """expand + verify one unit; returns dict with per-function results"""
    res = _run_unit(unit, dst, root, _assume)
    if not _assume:
        bad = [f["name"] for f in res["fns"] if f["name"] in L0_FALLBACK and (f["total"] != "discharged" or f.get("invariants") != "discharged"
               or any(c["status"] != "discharged" for c in f["clauses"]))]
        bad += [n for n in res.get("out_of_reach", []) if n in L0_FALLBACK and n not in bad]
        if bad:
            res = _run_unit(unit, dst, root, tuple(bad))
            res["l0_assumed"] = bad
    return res


def _run_unit(unit: str, dst: str, root: str, _assume=()):
    ex = verus_extract.Extractor(dst)
    ex.l0_fallback = L0_FALLBACK
    ex.assume_fns = set(_assume)
    pre = verus_extract.expand(open(os.path.join(CDIR, "prelude.rs")).read(), ex)
    tpl = open(os.path.join(CDIR, UNITS[unit]["tpl"])).read()
    if "//@emitters" in tpl:
        em, n = assembler_emitters(ex)
        if n < 20:
            raise Undecided(f"assembler emission productions: only {n} found by shape (lost anchor)")
        tpl = tpl.replace("//@emitters", em)
    body = verus_extract.expand(tpl, ex)
    bm = re.search(r"^//@broadcast (.*)$", body, re.M)
    pre = pre.replace("/*@broadcast_extra*/", (", " + bm.group(1).strip()) if bm else "")
    text = pre + "\n" + body
    # @LIT("..") in a contract: index K of that print literal in the table of this run
    def lit_ix(m):
        if m.group(1) not in ex.literals:
            raise Undecided(f"lost anchor: print literal {m.group(1)} no longer printed by the functions of unit {unit}")
        return str(ex.literals.index(m.group(1)))
    text = re.sub(r"@LIT\((\"(?:[^\"\\]|\\.)*\"(?:\\n)?)\)", lit_ix, text)
    # @TOKS(L:db L:[ N:n L:]) in a contract: the token view term (same renderer as rewrite R14 uses for the code's templates)
    def toks_ix(m):
        units = []
        for u in m.group(1).split():
            k, _, v = u.partition(":")
            units.append((k, f"({v})" if "->" in v else v))
        return ex.tok_expr(units)
    text = re.sub(r"@TOKS\(([^()]*)\)", toks_ix, text)
    if ex.lit_tokens:
        text = "// literal tokens (extractor rewrite R14): " + "  ".join(f"lit_tok({k})=`{t}`" for k, t in enumerate(ex.lit_tokens)) + "\n" + text
    # literal table for the ghost output log (R2)
    if ex.literals:
        tbl = "\n".join(f"//   out K={k}: {lit}" for k, lit in enumerate(ex.literals))
        text = "// print literals (extractor rewrite R2):\n" + tbl + "\n" + text
    vdir = os.path.join(root, "verus")
    os.makedirs(vdir, exist_ok=True)
    path = os.path.join(vdir, unit + ".rs")
    open(path, "w").write(text)
    keep = os.path.join(VERIF, ".cache", "logs")
    os.makedirs(keep, exist_ok=True)
    open(os.path.join(keep, f"verus_{unit}.rs"), "w").write(text)
    t0 = time.time()
    import threading
    vac = {}
    def _vac():
        try:
            vac["res"] = run_vacuity(unit, text, vdir)
        except Exception as e:   # never let the probe break the check: no answer = undecided below
            vac["err"] = str(e)
    vth = threading.Thread(target=_vac)
    vth.start()
    cmd = ["verus", path, "--output-json", "--time", "--multiple-errors", "20", "--rlimit", str(UNITS[unit].get("rlimit", 60))]
    out_of_reach = []          # functions Verus rejected (construct outside its subset): isolated, reported undecided
    for attempt in range(8):
        try:
            p = subprocess.run(cmd, stdout=subprocess.PIPE, stderr=subprocess.PIPE, text=True, timeout=1500)
        except subprocess.TimeoutExpired:
            raise Undecided(f"verus timed out on unit {unit}")
        open(os.path.join(keep, f"verus_{unit}.out"), "w").write(p.stdout + "\n=====\n" + p.stderr)
        try:
            js = json.loads(p.stdout[p.stdout.index("{"):])
        except Exception:
            raise Undecided(f"verus produced no JSON for unit {unit}:\n{p.stderr[-3000:]}")
        vr = js.get("verification-results", {})
        rejected = vr.get("encountered-vir-error") or (not vr.get("success") and vr.get("verified", 0) == 0 and vr.get("errors", 0) == 0)
        if not rejected:
            break
        # rustc / VIR level error.  If it sits inside ONE extracted function, that function alone is put out of reach
        # (external_body keeps its contract for its callers) and the rest of the unit is still verified.
        locs = [int(x) for x in re.findall(r"-->\s*\S+?:(\d+):\d+", p.stderr)]
        spans0 = [sp for sp in fn_spans(text) if sp["kind"] == "exec"]
        hit = None
        for l in locs:
            for sp in spans0:
                if sp["start"] <= l <= sp["end"] and sp["name"] not in out_of_reach:
                    hit = sp
                    break
            if hit:
                break
        if hit is None or attempt == 7:
            raise Undecided(f"unit {unit}: Verus rejected the extracted text (construct outside its subset / lost anchor):\n"
                            + "\n".join(l for l in p.stderr.split("\n") if l.strip())[:3500])
        out_of_reach.append(hit["name"])
        lines = text.split("\n")
        lines.insert(hit["start"] - 1, "#[verifier::external_body] // put out of reach by the runner: " +
                     re.sub(r"\s+", " ", next((ln for ln in p.stderr.split("\n") if ln.startswith("error")), "rejected"))[:160])
        text = "\n".join(lines)
        open(path, "w").write(text)
        open(os.path.join(keep, f"verus_{unit}.rs"), "w").write(text)
    wall = time.time() - t0
    spans = fn_spans(text)
    # tagged obligations: `//# C08,C12 name` at the end of an ensures clause / invariant / decreases line
    tags = {}
    for ln, line in enumerate(text.split("\n"), 1):
        tm = re.search(r"//#\s*((?:C\d\d,?)+)\s+(\S+)", line)
        if tm:
            tags[ln] = {"props": tm.group(1).strip(",").split(","), "name": tm.group(2), "decreases": line.strip().startswith("decreases")}
    errors = []
    # human readable diagnostics on stderr: blocks starting with "error"
    for blk in re.split(r"\n(?=error)", p.stderr):
        if not blk.startswith("error"):
            continue
        if blk.startswith("error: aborting"):
            continue
        head = blk.split("\n")[0]
        # attribute the error to the function that contains its PRIMARY location (the first `-->`):
        # for a failed precondition that is the call site, for a failed postcondition the ensures clause
        blk_main = blk.split("\nnote:")[0]
        locs = [int(x) for x in re.findall(r"-->\s*\S+?:(\d+):\d+", blk_main)][:1]
        errors.append({"head": head, "lines": locs, "text": blk_main[:1500]})
    vth.join()
    if out_of_reach and (vac.get("res") is None or vac["res"][0] is None):
        # the probe ran on the text BEFORE the runner isolated the rejected function(s): repeat it on the final text
        try:
            vac["res"] = run_vacuity(unit, text, vdir)
        except Exception as e:
            vac["err"] = str(e)
    res = {"unit": unit, "wall": wall, "verified": vr.get("verified", 0), "errors_n": vr.get("errors", 0), "out_of_reach": out_of_reach,
           "vacuity": vac,
           "fns": [], "rewrites": ex.rewrites, "functions": ex.functions, "path": path, "raw_err": p.stderr[-4000:],
           "smt_ms": js.get("times-ms", {}).get("smt", {}).get("total") if isinstance(js.get("times-ms", {}).get("smt"), dict) else None,
           "times": js.get("times-ms", {})}
    for sp in spans:
        if sp["kind"] == "spec":
            continue
        if sp["kind"] == "assumed":
            res.setdefault("assumed", []).append(sp["name"])
            continue
        f = {"name": sp["name"], "kind": sp["kind"], "clauses": [], "total": "discharged", "messages": []}
        mine = [e for e in errors if any(sp["start"] <= l <= sp["end"] for l in e["lines"])]
        # Verus reports the proof failures it has identified (a named postcondition / invariant) and, separately, "Resource limit
        # exceeded" for what it could not finish.  The named failures are refutations of obligations that were discharged on the
        # unchanged tree; only the remainder (`total`, and everything when nothing is named) is undecided.
        is_rl = lambda e: "rlimit" in e["text"] or "resource limit" in e["text"].lower() or "timed out" in e["text"].lower()
        rl_hit = any(is_rl(e) for e in mine)
        mine = [e for e in mine if not is_rl(e)] if any(not is_rl(e) for e in mine) else mine
        timeout = rl_hit and all(is_rl(e) for e in mine)
        failed_clause_lines = set()
        failed_tag_lines = set()
        other = False
        inv_failed = False
        clause_lines = set()
        for (l0, l1, _t) in sp["clauses"]:
            clause_lines.update(range(l0, l1 + 1))
        mytags = {ln: t for ln, t in tags.items() if sp["start"] <= ln <= sp["end"] and ln not in clause_lines}
        for e in mine:
            f["messages"].append(e["text"][:800])
            if "postcondition not satisfied" in e["head"]:
                # multi-line clauses are printed with a `/ ... |____^` frame: every line number of the frame is collected
                seg = e["text"].split("failed this postcondition")[0]
                fl = re.findall(r"^\s*(\d+) \|", seg, re.M)
                if fl:
                    failed_clause_lines.update(int(x) for x in fl)
                else:
                    other = True
            elif "invariant not satisfied" in e["head"] and e["lines"] and e["lines"][0] in mytags:
                failed_tag_lines.add(e["lines"][0])
            elif "assertion failed" in e["head"] and e["lines"] and e["lines"][0] in mytags:
                failed_tag_lines.add(e["lines"][0])        # a tagged assertion placed by a template hint (R7)
            elif "decreases not satisfied" in e["head"] and any(t["decreases"] for t in mytags.values()):
                failed_tag_lines.update(ln for ln, t in mytags.items() if t["decreases"])
            elif "invariant not satisfied" in e["head"]:
                inv_failed = True
            else:
                other = True
        for k, (l0, l1, txt) in enumerate(sp["clauses"]):
            st = "discharged"
            if any(l0 <= fl <= l1 for fl in failed_clause_lines):
                st = "undecided" if timeout else "refuted"
            tg = next((tags[ln] for ln in range(l0, l1 + 1) if ln in tags), None)
            f["clauses"].append({"k": k, "text": txt[:300], "status": st, "name": tg["name"] if tg else None, "props": tg["props"] if tg else None})
        f["tagged"] = []
        lines_all = text.split("\n")
        for ln, tg in sorted(mytags.items()):
            st = ("undecided" if timeout else "refuted") if ln in failed_tag_lines else "discharged"
            f["tagged"].append({"name": tg["name"], "props": tg["props"], "status": st, "text": re.sub(r"\s+", " ", lines_all[ln - 1].split("//#")[0].strip())[:300]})
        # untagged loop invariants state what the loop computes (the function's own property), not totality
        f["invariants"] = ("undecided" if timeout else "refuted") if inv_failed else "discharged"
        f["has_loops"] = bool(re.search(r"^\s*invariant\b", "\n".join(text.split("\n")[sp["start"]:sp["end"]]), re.M))
        if rl_hit and f["total"] == "discharged" and not other:
            f["total"] = "undecided"
        if other:
            f["total"] = "undecided" if timeout else "refuted"
        if failed_clause_lines and not any(c["status"] != "discharged" for c in f["clauses"]):
            f["total"] = "undecided" if timeout else "refuted"
        res["fns"].append(f)
    return res


# C15 (partial): the `total` clause (no overflow, no index / slice out of range, no unwrap of nothing, callee preconditions,
# termination of every loop) of every hand-written function between the input text and the result
C15_UNITS = ("assembler", "lexer", "numbers", "driver", "loader", "printer", "transfer")


def run_for_property(pid, tier, seed, dst, root, rep, findings):
    import replay as replay_mod
    todo = [u for u, d in UNITS.items() if (pid in d["props"] or (pid == "C15" and u in C15_UNITS)) and os.path.exists(os.path.join(CDIR, d["tpl"]))]
    if not todo:
        return
    kf = [f for f in findings if f.get("status") == "known" and f.get("engine") == "verus"]
    for a in VERUS_TRUSTED:
        if a not in rep.assumptions:
            rep.assumptions.append(a)
    for unit in todo:
        for a in UNITS[unit].get("assumes", []):
            if a not in rep.assumptions:
                rep.assumptions.append(a)
        r = run_unit(unit, dst, root)
        for n in r.get("l0_assumed", []):
            a = (f"unit {unit}: the real body of L0 helper `{n}` could not be verified inside this Verus unit on this tree (rewritten body: the "
                 f"proof hints no longer fit); its contract is ASSUMED here and decided by Kani unit {L0_FALLBACK[n]} under the same check")
            if a not in rep.assumptions:
                rep.assumptions.append(a)
        rep.extra.setdefault("verus_units", []).append({"unit": unit, "wall_s": round(r["wall"], 1), "verified": r["verified"],
                                                        "errors": r["errors_n"], "times_ms": r["times"],
                                                        "rewrites": sorted(set(r["rewrites"]))[:60]})
        ntotal = 0
        vres = r.get("vacuity", {}).get("res")
        if vres is None or vres[0] is None:
            rep.undecided.append(f"verus {unit}: vacuity probe (every function with `ensures false` must fail) gave no answer: " + str(r.get("vacuity", {}).get("err", "the probe variant was rejected by Verus or timed out"))[:300])
        else:
            vacuous, vwall, vnames = vres
            rep.extra.setdefault("vacuity_probe", []).append({"unit": unit, "functions_probed": len(vnames), "all_refute_ensures_false": not vacuous, "wall_s": round(vwall, 1)})
            for name in vacuous:
                if name not in r.get("out_of_reach", []) and (pid in (fn_props(unit, name) + UNITS[unit]["props"]) or pid == "C15"):
                    rep.undecided.append(f"verus {unit}::{name}: VACUOUS -- the function verifies `ensures false` (contradictory precondition, assumed contract or invariant); its obligations prove nothing")
        for name in r.get("out_of_reach", []):
            if pid in fn_props(unit, name) or pid == "C15":
                rep.undecided.append(f"verus {unit}::{name}: construct outside Verus' subset (function isolated; the rest of the unit was verified)")
                ntotal += 1
        for f in r["fns"]:
            fprops = fn_props(unit, f["name"])
            if pid == "C15" and unit in C15_UNITS and f["kind"] == "exec":
                fprops = fprops + ["C15"]
            allc = []
            # C09 (totality, addresses inside 1 MB) is carried by `total` and by the address helpers' postconditions; the
            # postconditions of the other functions state what they compute, and a change there is not a C09 matter
            functional = fprops if re.fullmatch("make_valid_address|calculate_from_offset", f["name"]) else ([q for q in fprops if q not in ("C09", "C15")] or fprops)
            for c in f["clauses"]:
                if pid in (c.get("props") or functional):
                    allc.append((c.get("name") or f"ensures#{c['k']}", c["status"], c["text"]))
            for tg in f.get("tagged", []):
                if pid in tg["props"]:
                    allc.append((tg["name"], tg["status"], tg["text"]))
            if pid in fprops:
                allc.append(("total", f["total"], "no overflow / index in bounds / callee preconditions / termination"))
            if f.get("has_loops") and pid in ([q for q in fprops if q not in ("C09", "C15")] or fprops):
                allc.append(("loop-invariants", f.get("invariants", "discharged"), "untagged loop invariants (what the loop has computed so far)"))
            if not allc:
                continue
            ntotal += 1
            rep.functions.add(f"{unit}::{f['name']}")
            for cname, st, txt in allc:
                oid = f"verus:{unit}::{f['name']}"
                known = [k for k in kf if k["unit"] == unit and k["fn"] == f["name"] and k["clause"] == cname]
                if st == "refuted" and known:
                    rep.known.append({"obligation": f"{oid}/{cname}", "what": known[0]["what"], "witness": known[0].get("witness", {}),
                                      "region": "clause", "confirmed_this_run_by": "verus (obligation still unproved)"})
                    continue
                rep.add(oid, cname, "verus", "z3", st, r["wall"] / max(1, len(r["fns"])), f"{unit}::{f['name']}", "V")
                rep.extra.setdefault("clause_text", {})[f"{oid}/{cname}"] = txt
                if st == "refuted":
                    path, conf = record_verus(pid, unit, f, cname, txt, r, dst)
                    rep.violations.append({"obligation": f"{oid}/{cname}", "path": path, "confirmed": conf})
                elif st == "undecided":
                    rep.undecided.append(f"verus {unit}::{f['name']}/{cname}: resource limit")
        if ntotal == 0:
            raise Undecided(f"verus unit {unit}: no function under contract was found for {pid}")


def fn_props(unit, fn):
    d = UNITS[unit]
    ov = d.get("fn_props", {})
    for pat, props in ov.items():
        if re.fullmatch(pat, fn):
            return props
    return d["props"]


def record_verus(pid, unit, f, cname, txt, r, dst=None):
    d = os.path.join(os.environ.get("VERIF_REPLAY_DIR", os.path.join(VERIF, "replays")), pid)
    os.makedirs(d, exist_ok=True)
    path = os.path.join(d, f"verus_{unit}__{f['name']}__{cname.replace('#', '')}.json")
    doc = {"property": pid, "obligation": f"verus:{unit}::{f['name']}/{cname}", "verifier": "verus 0.2026.09.13 / z3",
           "clause": txt, "verifier_output": f["messages"][:4], "confirmed": False,
           "note": "no-failing-input-found: Verus gives no model; the obligation was discharged on the pinned tree and is no longer provable",
           "recipe": {"kind": "verus"}, "inputs": {}}
    # emitted-text obligations: Verus gives no model, but the production's form tells which source line to try on the real assembler
    if unit == "assembler" and f["name"] in EM_INFO and "emitted_line" in cname and dst:
        try:
            import replay as replay_mod
            import text_replay
            p, a, units, prods = EM_INFO[f["name"]]
            if units is not None:
                tool = replay_mod.build_tool(dst)
                rr = text_replay.replay(tool, replay_mod.ask, p, a, units, prods)
                if rr is not None:
                    doc["recipe"] = {"kind": "asm", "source": rr["source"], "production": p.sig}
                    doc["replay"] = rr
                    doc["confirmed"] = bool(rr.get("confirmed"))
                    if doc["confirmed"]:
                        doc["note"] = "replayed on the real assembler: the source line of this production's form is lowered to a line whose token view differs from the interpreter's syntax for it"
        except Exception as e:       # a replay that cannot be made never hides the violation
            doc["replay_error"] = str(e)[:500]
    elif unit == "assembler" and dst and any(k in cname for k in ("emitted_line", "memory_operand_text", "string_instruction_text")):
        try:
            import replay as replay_mod
            import text_replay
            tool = replay_mod.build_tool(dst)
            rr = text_replay.replay_static(tool, replay_mod.ask, f["name"])
            if rr is not None:
                doc["recipe"] = {"kind": "asm", "source": rr["source"], "production": f["name"], "list": rr.get("list", "code")}
                doc["replay"] = rr
                doc["confirmed"] = bool(rr.get("confirmed"))
                if doc["confirmed"]:
                    doc["note"] = "replayed on the real assembler: the source line of this production's form is lowered to a line whose token view differs from the downstream syntax for it"
        except Exception as e:
            doc["replay_error"] = str(e)[:500]
    json.dump(doc, open(path, "w"), indent=1)
    return path, doc["confirmed"]
