"""Scratch copy of /repo's current working tree, LALRPOP regeneration, add-only annotation."""
import difflib
import hashlib
import os
import re
import shutil
import subprocess
import sys
import time

VERIF = os.path.dirname(os.path.dirname(os.path.abspath(__file__)))
REPO = os.environ.get("VERIF_REPO", "/repo")
SCRATCH_ROOT = os.environ.get("VERIF_SCRATCH", "/var/tmp/verif8086")
LALRPOP_GEN = os.path.join(VERIF, "tools/lalrpop-gen/target/release/lalrpop-gen")
ENV = dict(os.environ, CARGO_NET_OFFLINE="true")


class Undecided(Exception):
    """lost anchor, unsupported construct, tool failure: exit 2, never a violation"""


def sh(cmd, cwd=None, timeout=None, env=None, check=True):
    p = subprocess.run(cmd, cwd=cwd, timeout=timeout, env=env or ENV, stdout=subprocess.PIPE,
                       stderr=subprocess.STDOUT, text=True, errors="replace")
    if check and p.returncode != 0:
        raise Undecided(f"command failed ({p.returncode}): {' '.join(cmd)}\n{p.stdout[-4000:]}")
    return p


def ensure_tools():
    if not os.path.exists(LALRPOP_GEN):
        d = os.path.join(VERIF, "tools/lalrpop-gen")
        sh(["cargo", "build", "--offline", "--release"], cwd=d, timeout=1200)


def make_copy(tag: str) -> str:
    """rsync the working tree (not HEAD: 'current tree' means what is on disk) into a fresh scratch dir"""
    ensure_tools()
    root = os.path.join(SCRATCH_ROOT, f"{tag}.{os.getpid()}")
    if os.path.exists(root):
        shutil.rmtree(root)
    os.makedirs(root)
    dst = os.path.join(root, "repo")
    sh(["rsync", "-a", "--exclude", "/target", "--exclude", "/.git", REPO + "/", dst + "/"])
    # regenerate the four parsers from the CURRENT .lalrpop files, exactly as build.rs does
    p = subprocess.run([LALRPOP_GEN, "src"], cwd=dst, env=dict(ENV, LALRPOP_GEN_FORCE="1"),
                       stdout=subprocess.PIPE, stderr=subprocess.STDOUT, text=True)
    if p.returncode != 0:
        raise Undecided("LALRPOP could not regenerate the parsers from the current grammar files:\n" + p.stdout[-3000:])
    return root


def remove_copy(root: str):
    shutil.rmtree(root, ignore_errors=True)
    try:
        os.rmdir(SCRATCH_ROOT)
    except OSError:
        pass


def tree_hash(dst: str) -> str:
    h = hashlib.sha256()
    for base, dirs, files in os.walk(os.path.join(dst, "src")):
        dirs.sort()
        for f in sorted(files):
            p = os.path.join(base, f)
            h.update(os.path.relpath(p, dst).encode())
            h.update(open(p, "rb").read())
    for f in ("Cargo.toml", "Cargo.lock", "build.rs"):
        p = os.path.join(dst, f)
        if os.path.exists(p):
            h.update(open(p, "rb").read())
    return h.hexdigest()


FN_RE_T = r"^(\s*)(pub(?:\([a-z]+\))? )?fn {name}\s*[<(]"


def insert_above_fn(text: str, name: str, attrs: str, path: str) -> str:
    m = re.search(FN_RE_T.format(name=re.escape(name)), text, re.M)
    if not m:
        raise Undecided(f"lost anchor: function `{name}` not found in {path}")
    # step over existing attributes / doc comments directly above the fn so ours sit adjacent to them
    start = m.start()
    lines_before = text[:start].split("\n")
    # lines_before[-1] is '' (start of fn line); walk up over #[..] and /// lines
    k = len(lines_before) - 1
    while k - 1 >= 0 and re.match(r"\s*(#\[|///)", lines_before[k - 1]):
        k -= 1
    pos = len("\n".join(lines_before[:k])) + (1 if k > 0 else 0)
    indent = m.group(1)
    attrs_i = "".join(indent + l + "\n" for l in attrs.rstrip("\n").split("\n"))
    return text[:pos] + attrs_i + text[pos:]


def assert_add_only(orig: str, new: str, path: str) -> str:
    """every change must be a pure insertion of whole lines; returns the unified diff"""
    a, b = orig.splitlines(), new.splitlines()
    sm = difflib.SequenceMatcher(None, a, b, autojunk=False)
    for tag, i1, i2, j1, j2 in sm.get_opcodes():
        if tag in ("replace", "delete"):
            raise Undecided(f"annotator bug: non add-only edit in {path}: {tag} {a[i1:i2][:3]}")
    return "\n".join(difflib.unified_diff(a, b, "a/" + path, "b/" + path, lineterm="", n=1))


class Annotator:
    def __init__(self, dst: str):
        self.dst = dst
        self.orig = {}
        self.cur = {}

    def read(self, rel: str) -> str:
        if rel not in self.cur:
            p = os.path.join(self.dst, rel)
            if not os.path.exists(p):
                raise Undecided(f"lost anchor: file {rel} missing")
            self.orig[rel] = self.cur[rel] = open(p).read()
        return self.cur[rel]

    def attrs_above(self, rel: str, fn: str, attrs: str):
        self.cur[rel] = insert_above_fn(self.read(rel), fn, attrs, rel)

    def append(self, rel: str, text: str):
        t = self.read(rel)
        if not t.endswith("\n"):
            t += "\n"
        self.cur[rel] = t + text

    def prepend_inner_attrs(self, rel: str, text: str):
        """crate-level #![...] attributes must come first in lib.rs"""
        self.cur[rel] = text + self.read(rel)

    def commit(self) -> str:
        diffs = []
        for rel, new in self.cur.items():
            diffs.append(assert_add_only(self.orig[rel], new, rel))
            with open(os.path.join(self.dst, rel), "w") as f:
                f.write(new)
        return "\n".join(diffs)
