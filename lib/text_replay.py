"""Replay of a refuted emitted-text obligation (unit `assembler`, em_k) on the REAL assembler: a source line of the production's
form is built from its signature, assembled by the real Preprocessor (replay tool, `asm`), and the token view of the line it
emitted is compared with the token view the contract demands for these very operands.  A mismatch is a concrete failing input."""
import re

TOK = re.compile(r"[A-Za-z0-9_]+|[^\sA-Za-z0-9_]")
SAMPLE_TEXT = {"memory_addr": ["[bx,si,5]", "[bp,3]"], "name_string": ["tgt"], "gen_byte_reg": ["al", "bl"], "gen_word_reg": ["ax", "bx"],
               "gen_reg": ["cx"], "seg_reg": ["es"], "pop_reg": ["ds"]}
NUMBERS = {"u_byte_num": "7", "s_byte_num": "7", "u_word_num": "300", "s_word_num": "300", "raw_addr": "64"}


def first_spelling(prods, nt, k=0):
    """k-th lower-case terminal spelling of a table nonterminal"""
    sp = [p.syms[0][1:-1] for p in prods if p.nt == nt and len(p.syms) == 1 and p.syms[0].startswith('"')]
    low = [s for s in sp if s == s.lower() and s not in ("shl", "repe", "repne")] or sp
    return low[min(k, len(low) - 1)] if low else None


def build(p, a, units, prods):
    """(source text, expected tokens) or None"""
    tup = [(pat, ty) for pat, ty in a.params if pat.startswith("(")]
    if len(tup) == len(p.syms) + 2:
        tup = tup[1:-1]
    elif len(tup) == len(p.syms) + 1:
        tup = tup[1:]
    if len(tup) != len(p.syms):
        return None
    name = lambda i: ([x.strip() for x in tup[i][0].strip("()").split(",")] + ["_", "_"])[1]
    text_of = {}          # parameter name -> the text / value it stands for in the sample
    words, pre = [], []
    used = {}
    for i, sy in enumerate(p.syms):
        k = used.get(sy, 0)
        used[sy] = k + 1
        if sy.startswith('"'):
            w = sy[1:-1]
        elif sy in NUMBERS:
            w = NUMBERS[sy]
            text_of[name(i)] = w
        elif sy in ("byte_label", "word_label"):
            kw = sy.split("_")[0]
            lab = "lb" if kw == "byte" else "lw"
            pre.append(f"{lab}: d{'b' if kw == 'byte' else 'w'} 1")
            w = f"{kw} {lab}"
            text_of[name(i)] = lab
        elif sy in SAMPLE_TEXT:
            w = SAMPLE_TEXT[sy][min(k, len(SAMPLE_TEXT[sy]) - 1)]
            text_of[name(i)] = w
        else:
            w = first_spelling(prods, sy, k)
            low = lambda x: {"shl": "sal", "repe": "repz", "repne": "repnz"}.get(x.lower(), x.lower())
            if w is None:
                # nonterminal with structure of its own (string_*_opcode = <opcode table> <size keyword>): its first alternative,
                # every symbol by its first spelling
                sub = [q for q in prods if q.nt == sy]
                parts = [first_spelling(prods, x) for x in sub[0].syms] if sub else [None]
                if not parts or any(x is None for x in parts):
                    return None
                w = " ".join(parts)
                text_of[name(i)] = " ".join(low(x) for x in parts)
            else:
                text_of[name(i)] = low(w)
        words.append(w)
    src = " ".join(words).replace(" ,", ",")
    if p.nt in ("jmps_loops",):
        pre.append("tgt:")
    if p.nt == "call":
        pre.append("def tgt { }")
    exp = []
    for kind, v in units:
        if kind == "L":
            exp.append(v)
        elif kind == "P":
            if v not in text_of:
                return None
            exp += TOK.findall(text_of[v])
        else:
            if v not in text_of and not re.fullmatch(r"\d+", v):
                return None
            exp.append(text_of.get(v, v))
    return "\n".join(pre + [src]), exp


def replay(tool, ask, p, a, units, prods, data=False):
    b = build(p, a, units, prods)
    if b is None:
        return None
    src, exp = b
    obs = ask(tool, ["asm " + src.replace("\n", "\\n")])[0]
    if not isinstance(obs, dict) or not obs.get("ok"):
        return {"source": src, "observed": obs, "expected_tokens": exp, "confirmed": False,
                "note": "the sample source of this production's form was not assembled; no concrete failing input"}
    lines = obs.get("data" if data else "code") or []
    got = TOK.findall(lines[-1]) if lines else []
    return {"source": src, "emitted": lines[-1] if lines else None, "emitted_tokens": got, "expected_tokens": exp,
            "mismatch": [] if got == exp else [f"emitted `{lines[-1] if lines else ''}`, the interpreter's syntax for this source form is `{' '.join(exp)}`"],
            "confirmed": got != exp}


# ---- productions with a static template (unit assembler, as_*): a fixed source line of the production's form and the line the
# downstream syntax prescribes for it (written from the interpreter's / loader's grammar, like the contract itself)
STATIC = {
    "as_call": ("def tgt { inc ax }\ncall tgt", "code", "call tgt"),
    "as_int": ("int 0x21", "code", "int 33"),
    "as_jmps_loops": ("tgt:\njmp tgt", "code", "jmp tgt"),
    "as_print_mem_len": ("print mem 16:4", "code", "print mem 16 : 4"),
    "as_db_value": ("a: db -3", "data", "db -3"),
    "as_db_zeros": ("a: db [4]", "data", "db [ 4 ]"),
    "as_db_fill": ("a: db [7,2]", "data", "db [ 7 , 2 ]"),
    "as_db_string": ('a: db "hi"', "data", 'db " hi "'),
    "as_dw_value": ("a: dw 300", "data", "dw 300"),
    "as_dw_zeros": ("a: dw [4]", "data", "dw [ 4 ]"),
    "as_dw_fill": ("a: dw [7,2]", "data", "dw [ 7 , 2 ]"),
    "as_dw_string": ('a: dw "hi"', "data", 'dw " hi "'),
    "as_set": ("set 0x20", "data", "set 32"),
    "as_mem_direct": ("mov al, byte es[300]", "code", "mov al , byte es : [ 300 ]"),
    "as_mem_indirect": ("mov al, byte ds[si]", "code", "mov al , byte ds : [ si ]"),
    "as_mem_based": ("mov al, byte ss[bp,-2]", "code", "mov al , byte ss : [ bp , - 2 ]"),
    "as_mem_indexed": ("mov al, byte es[di,7]", "code", "mov al , byte es : [ di , 7 ]"),
    "as_mem_based_indexed": ("mov al, byte es[bx,si]", "code", "mov al , byte es : [ bx , si , 0 ]"),
    "as_string_condition_repeat_opcode_byte": ("cmps byte", "code", "cmps byte"),
    "as_string_condition_repeat_opcode_word": ("scas word", "code", "scas word"),
    "as_string_repeat_opcode_byte": ("movs byte", "code", "movs byte"),
    "as_string_repeat_opcode_word": ("stos word", "code", "stos word"),
}


def replay_static(tool, ask, fn):
    if fn not in STATIC:
        return None
    src, kind, want = STATIC[fn]
    exp = TOK.findall(want)
    obs = ask(tool, ["asm " + src.replace("\n", "\\n")])[0]
    if not isinstance(obs, dict) or not obs.get("ok") or not obs.get(kind):
        return {"source": src, "observed": obs, "expected_tokens": exp, "confirmed": False,
                "note": "the sample source of this production's form was not assembled; no concrete failing input"}
    line = obs[kind][-1]
    got = TOK.findall(line)
    return {"source": src, "emitted": line, "emitted_tokens": got, "expected_tokens": exp, "list": kind,
            "mismatch": [] if got == exp else [f"emitted `{line}`, the downstream syntax for this source form is `{want}`"],
            "confirmed": got != exp}
